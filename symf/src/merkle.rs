//! C12 / C16: the real `MerkleTree::new` / `prove` / `verify_merkle_proof_to_cap` /
//! `verify_batch_merkle_proof_to_cap` / `BatchMerkleTree` / `compress_merkle_proofs` /
//! `decompress_merkle_proofs` / `FriProof::compress` / `CompressedFriProof::decompress` executed
//! on symbolic leaves (Poseidon = free function symbol `Perm`).
//!
//! * group 1 (Ob12.1)  cap == 10-line reference (pairwise, level by level); `prove(i)` + leaf i
//!   is accepted for every i.
//! * group 2 (Ob12.2)  binding: with a fully symbolic proof, `Accept(pi) /\ Accept(pi[e += delta])`
//!   ==> delta == 0 for every leaf element / sibling lane / cap lane (ideal-hash model), and a proof
//!   accepted at a mirrored position forces the two sibling subtrees to have equal digests. Same
//!   for the batch verifier; `BatchMerkleTree` cap == reference and honest openings accepted.
//! * group 3 (Ob16.1)  decompress(compress(paths)) == paths on a real tree over symbolic leaves.
//! * group 4 (Ob16.2)  `Proof::compress` -> real `get_inferred_elements` -> `decompress` == the
//!   original proof, on FRI proofs whose Merkle paths come from real trees over symbolic leaves.
//!
//! Native replay (F = GoldilocksField): the same obligations on real trees built from the model /
//! pseudo-random leaves with the real Poseidon; pinning obligations take the honest proof of the
//! real tree and apply the same perturbation.
use plonky2::fri::proof::{FriChallenges, FriInitialTreeProof, FriProof, FriQueryRound, FriQueryStep};
use plonky2::fri::reduction_strategies::FriReductionStrategy;
use plonky2::fri::{FriConfig, FriParams};
use plonky2::hash::batch_merkle_tree::BatchMerkleTree;
use plonky2::hash::hash_types::HashOut;
use plonky2::hash::merkle_proofs::{verify_batch_merkle_proof_to_cap, verify_merkle_proof_to_cap, MerkleProof};
use plonky2::hash::merkle_tree::{MerkleCap, MerkleTree};
use plonky2::hash::poseidon::PoseidonHash;
use plonky2::plonk::circuit_data::{CircuitConfig, CommonCircuitData};
use plonky2::plonk::proof::{CompressedProofWithPublicInputs, OpeningSet, Proof, ProofChallenges};
use plonky2::verif_hooks as hooks;
use plonky2_field::extension::{flatten, Extendable, FieldExtension};
use plonky2_field::polynomial::PolynomialCoeffs;
use plonky2_field::types::Field;

use crate::ctx::{eq, Ctx, Mode, Ob, A, VF};

type H = PoseidonHash;
type Dig<F> = [F; 4];
type Ext<F> = <F as Extendable<2>>::Extension;

const SEQ: &str = "the harness builds plonky2 without the `parallel` feature: plonky2_maybe_rayon is the sequential fallback, so only the sequential schedule of fill_digests_buf / fill_subtree is executed (thread schedules: C19)";

// ------------------------------------------------------------------------------------------
// reference (independent of hashing.rs / config.rs / merkle_tree.rs): only `Poseidon::poseidon`
// ------------------------------------------------------------------------------------------

/// <= 4 elements: the elements padded with zeros ARE the digest; otherwise overwrite-mode sponge
/// of rate 8 / width 12 without padding, first four lanes of the final state.
fn ref_hash_or_noop<F: VF>(xs: &[F]) -> Dig<F> {
    if xs.len() <= 4 {
        return core::array::from_fn(|k| if k < xs.len() { xs[k] } else { F::ZERO });
    }
    let mut st = [F::ZERO; 12];
    for ch in xs.chunks(8) {
        st[..ch.len()].copy_from_slice(ch);
        st = F::poseidon(st);
    }
    [st[0], st[1], st[2], st[3]]
}

fn ref_two_to_one<F: VF>(l: Dig<F>, r: Dig<F>) -> Dig<F> {
    let mut st = [F::ZERO; 12];
    st[..4].copy_from_slice(&l);
    st[4..8].copy_from_slice(&r);
    let o = F::poseidon(st);
    [o[0], o[1], o[2], o[3]]
}

fn ref_reduce<F: VF>(mut layer: Vec<Dig<F>>, target_len: usize) -> Vec<Dig<F>> {
    while layer.len() > target_len {
        layer = layer.chunks(2).map(|c| ref_two_to_one::<F>(c[0], c[1])).collect();
    }
    layer
}

fn ref_cap<F: VF>(leaves: &[Vec<F>], cap_height: usize) -> Vec<Dig<F>> {
    ref_reduce::<F>(leaves.iter().map(|l| ref_hash_or_noop::<F>(l)).collect(), 1 << cap_height)
}

/// Batch tree: matrices sorted from tallest to shortest; the digests of a layer that has as many
/// nodes as the next matrix has rows are re-hashed together with that row.
fn ref_batch_cap<F: VF>(mats: &[Vec<Vec<F>>], cap_height: usize) -> Vec<Dig<F>> {
    let mut layer: Vec<Dig<F>> = mats[0].iter().map(|l| ref_hash_or_noop::<F>(l)).collect();
    for m in &mats[1..] {
        layer = ref_reduce::<F>(layer, m.len());
        layer = layer
            .iter()
            .zip(m)
            .map(|(d, row)| {
                let mut v = d.to_vec();
                v.extend_from_slice(row);
                ref_hash_or_noop::<F>(&v)
            })
            .collect();
    }
    ref_reduce::<F>(layer, 1 << cap_height)
}

/// digest chain of a Merkle path: d_0 = hash_or_noop(leaf), d_{l+1} by bit l of the index
fn ref_chain<F: VF>(leaf: &[F], index: usize, siblings: &[HashOut<F>]) -> Vec<Dig<F>> {
    let mut out = vec![ref_hash_or_noop::<F>(leaf)];
    for (l, s) in siblings.iter().enumerate() {
        let d = *out.last().unwrap();
        out.push(if (index >> l) & 1 == 1 { ref_two_to_one::<F>(s.elements, d) } else { ref_two_to_one::<F>(d, s.elements) });
    }
    out
}

// ------------------------------------------------------------------------------------------
// helpers
// ------------------------------------------------------------------------------------------

/// `Hasher::hash_or_noop` round-trips short leaves through to_canonical_u64 / from_canonical_u64
fn with_placeholders<F: VF, T>(f: impl FnOnce() -> T) -> T {
    let old = if F::SYMBOLIC { crate::set_placeholders(true) } else { false };
    let r = f();
    if F::SYMBOLIC {
        crate::set_placeholders(old);
    }
    r
}

fn sym_leaves<F: VF>(prefix: &str, n: usize, w: usize) -> Vec<Vec<F>> {
    (0..n).map(|j| (0..w).map(|e| F::var(&format!("{prefix}{j}_{e}"))).collect()).collect()
}

fn sym_hash<F: VF>(name: &str) -> HashOut<F> {
    HashOut { elements: core::array::from_fn(|k| F::var(&format!("{name}.{k}"))) }
}

fn eq_dig<F: VF>(a: &Dig<F>, b: &Dig<F>) -> Vec<A> {
    (0..4).map(|k| eq(a[k], b[k])).collect()
}

fn eq_caps<F: VF>(cap: &MerkleCap<F, H>, r: &[Dig<F>]) -> Vec<A> {
    let mut g = vec![A::Bool(cap.0.len() == r.len())];
    for (c, d) in cap.0.iter().zip(r) {
        g.extend(eq_dig::<F>(&c.elements, d));
    }
    g
}

fn eq_proofs<F: VF>(a: &[MerkleProof<F, H>], b: &[MerkleProof<F, H>]) -> Vec<A> {
    let mut g = vec![A::Bool(a.len() == b.len())];
    for (p, q) in a.iter().zip(b) {
        g.push(A::Bool(p.siblings.len() == q.siblings.len()));
        for (s, t) in p.siblings.iter().zip(&q.siblings) {
            g.extend(eq_dig::<F>(&s.elements, &t.elements));
        }
    }
    g
}

fn accept_single<F: VF>(leaf: &[F], i: usize, cap: &MerkleCap<F, H>, proof: &MerkleProof<F, H>) -> A {
    let (ok, atoms) = F::accept(|| verify_merkle_proof_to_cap::<F, H>(leaf.to_vec(), i, cap, proof));
    A::Accept(ok, atoms)
}

fn accept_batch<F: VF>(data: &[Vec<F>], heights: &[usize], i: usize, cap: &MerkleCap<F, H>, proof: &MerkleProof<F, H>) -> A {
    let (ok, atoms) = F::accept(|| verify_batch_merkle_proof_to_cap::<F, H>(data, heights, i, cap, proof));
    A::Accept(ok, atoms)
}

/// first / middle / last (quick) or every index
fn spread(n: usize, all: bool) -> Vec<usize> {
    if all || n <= 3 {
        return (0..n).collect();
    }
    vec![0, if n >= 8 { n / 2 + 1 } else { n / 2 }, n - 1]
}

fn lanes(all: bool) -> Vec<usize> {
    if all {
        vec![0, 1, 2, 3]
    } else {
        vec![0, 3]
    }
}

const F_TREE: &[&str] = &[
    "plonky2/src/hash/merkle_tree.rs::MerkleTree::new",
    "plonky2/src/hash/merkle_tree.rs::fill_digests_buf",
    "plonky2/src/hash/merkle_tree.rs::fill_subtree",
    "plonky2/src/hash/merkle_tree.rs::merkle_tree_prove",
    "plonky2/src/hash/merkle_tree.rs::MerkleTree::prove",
    "plonky2/src/hash/merkle_proofs.rs::verify_merkle_proof_to_cap",
    "plonky2/src/hash/merkle_proofs.rs::verify_batch_merkle_proof_to_cap",
    "plonky2/src/plonk/config.rs::Hasher::hash_or_noop",
    "plonky2/src/hash/hashing.rs::hash_n_to_m_no_pad",
    "plonky2/src/hash/hashing.rs::compress",
];
const F_VERIFY: &[&str] = &[
    "plonky2/src/hash/merkle_proofs.rs::verify_merkle_proof_to_cap",
    "plonky2/src/hash/merkle_proofs.rs::verify_batch_merkle_proof_to_cap",
    "plonky2/src/plonk/config.rs::Hasher::hash_or_noop",
    "plonky2/src/hash/hashing.rs::hash_n_to_m_no_pad",
    "plonky2/src/hash/hashing.rs::compress",
];
const F_BATCH: &[&str] = &[
    "plonky2/src/hash/batch_merkle_tree.rs::BatchMerkleTree::new",
    "plonky2/src/hash/batch_merkle_tree.rs::BatchMerkleTree::open_batch",
    "plonky2/src/hash/batch_merkle_tree.rs::BatchMerkleTree::values",
    "plonky2/src/hash/merkle_tree.rs::fill_digests_buf",
    "plonky2/src/hash/merkle_tree.rs::merkle_tree_prove",
    "plonky2/src/hash/merkle_proofs.rs::verify_batch_merkle_proof_to_cap",
    "plonky2/src/plonk/config.rs::Hasher::hash_or_noop",
];
const F_PATHS: &[&str] = &[
    "plonky2/src/hash/path_compression.rs::compress_merkle_proofs",
    "plonky2/src/hash/path_compression.rs::decompress_merkle_proofs",
    "plonky2/src/hash/merkle_tree.rs::MerkleTree::prove",
];

// ------------------------------------------------------------------------------------------
// group 1: Ob12.1
// ------------------------------------------------------------------------------------------

fn tree_obs<F: VF>(ctx: &mut Ctx, idp: &str, k: usize, c: usize, w: usize) {
    if F::SYMBOLIC {
        crate::reset();
    }
    let n = 1usize << k;
    let leaves = sym_leaves::<F>("leaf", n, w);
    let tree = with_placeholders::<F, _>(|| MerkleTree::<F, H>::new(leaves.clone(), c));
    let bounds = format!("n = {n} leaves of width {w} (every element a symbol), cap_height {c}; every position");
    let r = ref_cap::<F>(&leaves, c);
    ctx.add(
        Ob::new(format!("{idp}.cap"), F_TREE, bounds.clone())
            .sample("MerkleTree::new(leaves, cap_height).cap == hash_or_noop of every leaf, then pairwise two_to_one level by level until 2^cap_height digests remain (lane-wise)")
            .assume(SEQ)
            .goals(eq_caps::<F>(&tree.cap, &r))
            .key("merkle-tree:cap-vs-reference"),
    );
    for i in 0..n {
        let proof = tree.prove(i);
        let acc = accept_single::<F>(&leaves[i], i, &tree.cap, &proof);
        ctx.add(
            Ob::new(format!("{idp}.prove.i{i}"), F_TREE, bounds.clone())
                .sample(format!("tree.prove({i}) has {} siblings and verify_merkle_proof_to_cap(leaf_{i}, {i}, cap, proof) accepts", k - c))
                .assume(SEQ)
                .goal(A::Bool(proof.siblings.len() == k - c))
                .goal(acc)
                .key("merkle-tree:honest-proof-rejected"),
        );
    }
}

// ------------------------------------------------------------------------------------------
// group 2: Ob12.2 (single tree)
// ------------------------------------------------------------------------------------------

struct Inst<F: VF> {
    leaf: Vec<F>,
    proof: MerkleProof<F, H>,
    cap: MerkleCap<F, H>,
}

/// symbolic: every sibling / cap lane / leaf element a symbol; native: honest proof of a real tree
/// over the model's leaf i and pseudo-random other leaves. `sym_mask`: (native witness only)
/// make the tree symmetric in that index bit so that the mirrored-position hypotheses hold.
fn single_inst<F: VF>(h: usize, c: usize, w: usize, i: usize, sym_mask: usize) -> Inst<F> {
    if F::SYMBOLIC {
        Inst {
            leaf: (0..w).map(|e| F::var(&format!("leaf{i}_{e}"))).collect(),
            proof: MerkleProof { siblings: (0..h).map(|l| sym_hash::<F>(&format!("sib{l}"))).collect() },
            cap: MerkleCap((0..(1usize << c)).map(|k| sym_hash::<F>(&format!("cap{k}"))).collect()),
        }
    } else {
        let n = 1usize << (h + c);
        // leaves that differ only in the bits of `sym_mask` are equal (0 = generic tree); leaf i keeps
        // its name
        let leaves: Vec<Vec<F>> = (0..n).map(|j| (0..w).map(|e| F::var(&format!("leaf{}_{e}", (j & !sym_mask) | (i & sym_mask)))).collect()).collect();
        // the named leaf is leaf i (under mirroring: its representative)
        let tree = MerkleTree::<F, H>::new(leaves.clone(), c);
        Inst { leaf: leaves[i].clone(), proof: tree.prove(i), cap: tree.cap.clone() }
    }
}

/// which obligations of a binding group are generated (the quick tier thins out the big shapes)
#[derive(Clone, Copy)]
struct Sel {
    /// single-delta pinning obligations
    pins: bool,
    /// mirrored-position obligations
    mirrors: bool,
    /// every lane / element (otherwise lanes {0,3}, first and last element)
    all: bool,
    /// every sibling (otherwise, for proofs longer than 2, only the first and the last one)
    levels: bool,
}

fn sib_levels(h: usize, all: bool) -> Vec<usize> {
    if all || h <= 2 {
        (0..h).collect()
    } else {
        vec![0, h - 1]
    }
}

fn bind_obs<F: VF>(ctx: &mut Ctx, idp: &str, h: usize, c: usize, w: usize, i: usize, sel: Sel) {
    if F::SYMBOLIC {
        crate::reset();
    }
    let all = sel.all;
    let witness = matches!(ctx.mode, Mode::Witness);
    let base = single_inst::<F>(h, c, w, i, 0);
    let bounds = format!("proof length {h}, cap_height {c}, leaf width {w}, position {i}; leaf, every sibling and every cap entry symbols ranging over all field values");
    let acc0 = accept_single::<F>(&base.leaf, i, &base.cap, &base.proof);
    ctx.add(
        Ob::new(format!("{idp}.accept-path"), F_VERIFY, bounds.clone())
            .sample("verify_merkle_proof_to_cap reaches Ok on the path where the final comparison holds (no index panic)")
            .goal(A::Bool(matches!(acc0, A::Accept(true, _)))),
    );
    // binding proper: a second, independent opening (leaf', proof') of the same cap at the same
    // position coincides with the first one
    {
        let mut deltas = vec![];
        let mut leaf = base.leaf.clone();
        for (e, x) in leaf.iter_mut().enumerate() {
            let d = F::var(&format!("delta_leaf{e}"));
            *x += d;
            deltas.push(d);
        }
        let mut proof = base.proof.clone();
        for (l, sb) in proof.siblings.iter_mut().enumerate() {
            for lane in 0..4 {
                let d = F::var(&format!("delta_sib{l}.{lane}"));
                sb.elements[lane] += d;
                deltas.push(d);
            }
        }
        let acc1 = accept_single::<F>(&leaf, i, &base.cap, &proof);
        ctx.add(
            Ob::new(format!("{idp}.binding"), F_VERIFY, bounds.clone())
                .sample(format!("Accept(leaf, {i}, proof, cap) /\\ Accept(leaf', {i}, proof', cap)  ==>  leaf' == leaf /\\ proof' == proof  (leaf' = leaf + deltas, proof' = proof + deltas: {} independent symbols)", deltas.len()))
                .hyp(acc0.clone())
                .hyp(acc1)
                .goals(deltas.iter().map(|d| eq(*d, F::ZERO)).collect())
                .injective()
                .key("merkle-verifier:not-binding"),
        );
    }
    if !sel.pins && !sel.mirrors {
        return;
    }
    let delta = F::var("delta");
    let pin = |ctx: &mut Ctx, what: String, acc1: A, key: &str| {
        if !sel.pins {
            return;
        }
        ctx.add(
            Ob::new(format!("{idp}.pin.{what}"), F_VERIFY, bounds.clone())
                .sample(format!("Accept(leaf, {i}, proof, cap) /\\ Accept(the same with {what} += delta)  ==>  delta == 0"))
                .hyp(acc0.clone())
                .hyp(acc1)
                .goal(eq(delta, F::ZERO))
                .injective()
                .key(format!("merkle-verifier:unpinned:{key}")),
        );
    };
    let elems: Vec<usize> = if all || w <= 2 { (0..w).collect() } else { vec![0, w - 1] };
    for e in elems {
        let mut leaf = base.leaf.clone();
        leaf[e] += delta;
        let acc1 = accept_single::<F>(&leaf, i, &base.cap, &base.proof);
        pin(ctx, format!("leaf{e}"), acc1, "leaf");
    }
    for l in sib_levels(h, sel.levels) {
        for lane in lanes(all) {
            let mut proof = base.proof.clone();
            proof.siblings[l].elements[lane] += delta;
            let acc1 = accept_single::<F>(&base.leaf, i, &base.cap, &proof);
            pin(ctx, format!("sib{l}.{lane}"), acc1, "sibling");
        }
    }
    for lane in lanes(all) {
        let mut cap = base.cap.clone();
        cap.0[i >> h].elements[lane] += delta;
        let acc1 = accept_single::<F>(&base.leaf, i, &cap, &base.proof);
        pin(ctx, format!("cap{}.{lane}", i >> h), acc1, "cap");
    }
    // other positions: same leaf / proof / cap at j != i. Single-bit flips j = i ^ 2^b; thorough tier
    // also two multi-bit differences.
    let n = 1usize << (h + c);
    let mut others: Vec<usize> = (0..(h + c)).map(|b| i ^ (1usize << b)).collect();
    if all {
        for j in [i ^ 3, i ^ (n - 1), i ^ ((1usize << h) - 1)] {
            if j < n && j != i && !others.contains(&j) {
                others.push(j);
            }
        }
    }
    for j in others {
        if !sel.mirrors {
            break;
        }
        let diff = i ^ j;
        let low = diff & ((1usize << h) - 1);
        if low != 0 && (diff >> h) != 0 {
            // different cap entries and different paths: acceptance at both constrains nothing
            continue;
        }
        // native witness: a tree that is symmetric in the differing bits (the hypotheses are
        // satisfiable exactly by such trees); native replay: the generic tree (a verifier that
        // ignores the position accepts at j although the subtrees differ)
        let inst = if !F::SYMBOLIC && witness { single_inst::<F>(h, c, w, i, diff) } else { single_inst::<F>(h, c, w, i, 0) };
        let a_i = accept_single::<F>(&inst.leaf, i, &inst.cap, &inst.proof);
        let a_j = accept_single::<F>(&inst.leaf, j, &inst.cap, &inst.proof);
        let (goals, what) = if low != 0 {
            // b = highest differing bit: both chains enter level b on opposite sides of sibling b
            let b = (usize::BITS - 1 - low.leading_zeros()) as usize;
            let ci = ref_chain::<F>(&inst.leaf, i, &inst.proof.siblings);
            let cj = ref_chain::<F>(&inst.leaf, j, &inst.proof.siblings);
            let mut g = eq_dig::<F>(&ci[b], &inst.proof.siblings[b].elements);
            g.extend(eq_dig::<F>(&cj[b], &inst.proof.siblings[b].elements));
            (g, format!("the digests entering level {b} on either path equal sibling {b} (the two subtrees swapped at level {b} have equal digests)"))
        } else {
            (eq_dig::<F>(&inst.cap.0[i >> h].elements, &inst.cap.0[j >> h].elements), format!("cap entries {} and {} are equal", i >> h, j >> h))
        };
        ctx.add(
            Ob::new(format!("{idp}.mirror.j{j}"), F_VERIFY, bounds.clone())
                .sample(format!("Accept(leaf, {i}, proof, cap) /\\ Accept(leaf, {j}, proof, cap)  ==>  {what}"))
                .hyp(a_i)
                .hyp(a_j)
                .goals(goals)
                .injective()
                .key("merkle-verifier:position-not-bound"),
        );
    }
}

// ------------------------------------------------------------------------------------------
// group 2: batch trees
// ------------------------------------------------------------------------------------------

fn batch_mats<F: VF>(heights: &[usize], widths: &[usize]) -> Vec<Vec<Vec<F>>> {
    heights.iter().zip(widths).enumerate().map(|(m, (&hh, &w))| sym_leaves::<F>(&format!("m{m}r"), 1 << hh, w)).collect()
}

fn hname(heights: &[usize]) -> String {
    heights.iter().map(|h| h.to_string()).collect::<Vec<_>>().join("_")
}

fn batch_tree_obs<F: VF>(ctx: &mut Ctx, idp: &str, heights: &[usize], widths: &[usize], c: usize) {
    if F::SYMBOLIC {
        crate::reset();
    }
    let mats = batch_mats::<F>(heights, widths);
    let tree = with_placeholders::<F, _>(|| BatchMerkleTree::<F, H>::new(mats.clone(), c));
    let bounds = format!("matrices of heights {heights:?} (2^h rows) and widths {widths:?}, every element a symbol; cap_height {c}; every position");
    let r = ref_batch_cap::<F>(&mats, c);
    ctx.add(
        Ob::new(format!("{idp}.cap"), F_BATCH, bounds.clone())
            .sample("BatchMerkleTree::new(matrices, cap_height).cap == reference (pairwise level by level; a layer with as many nodes as the next matrix has rows is re-hashed with that row)")
            .assume(SEQ)
            .goal(A::Bool(tree.leaf_heights == heights))
            .goals(eq_caps::<F>(&tree.cap, &r))
            .key("batch-merkle-tree:cap-vs-reference"),
    );
    for i in 0..(1usize << heights[0]) {
        let proof = tree.open_batch(i);
        let vals = tree.values(i);
        let expect: Vec<Vec<F>> = mats.iter().zip(heights).map(|(m, &hh)| m[i >> (heights[0] - hh)].clone()).collect();
        let mut goals = vec![A::Bool(proof.siblings.len() == heights[0] - c), A::Bool(vals.len() == expect.len())];
        for (v, e) in vals.iter().zip(&expect) {
            goals.push(A::Bool(v.len() == e.len()));
            goals.extend(v.iter().zip(e).map(|(a, b)| eq(*a, *b)));
        }
        goals.push(accept_batch::<F>(&vals, &tree.leaf_heights, i, &tree.cap, &proof));
        ctx.add(
            Ob::new(format!("{idp}.open.i{i}"), F_BATCH, bounds.clone())
                .sample(format!("open_batch({i}) has {} siblings, values({i}) are the rows above position {i}, and verify_batch_merkle_proof_to_cap accepts them", heights[0] - c))
                .assume(SEQ)
                .goals(goals)
                .key("batch-merkle-tree:honest-proof-rejected"),
        );
    }
}

struct BInst<F: VF> {
    data: Vec<Vec<F>>,
    proof: MerkleProof<F, H>,
    cap: MerkleCap<F, H>,
}

fn batch_inst<F: VF>(heights: &[usize], widths: &[usize], c: usize, i: usize) -> BInst<F> {
    let h0 = heights[0];
    let row = |m: usize| i >> (h0 - heights[m]);
    if F::SYMBOLIC {
        BInst {
            data: (0..heights.len()).map(|m| (0..widths[m]).map(|e| F::var(&format!("m{m}r{}_{e}", row(m)))).collect()).collect(),
            proof: MerkleProof { siblings: (0..(h0 - c)).map(|l| sym_hash::<F>(&format!("sib{l}"))).collect() },
            cap: MerkleCap((0..(1usize << c)).map(|k| sym_hash::<F>(&format!("cap{k}"))).collect()),
        }
    } else {
        let tree = BatchMerkleTree::<F, H>::new(batch_mats::<F>(heights, widths), c);
        BInst { data: tree.values(i), proof: tree.open_batch(i), cap: tree.cap.clone() }
    }
}

fn batch_bind_obs<F: VF>(ctx: &mut Ctx, idp: &str, heights: &[usize], widths: &[usize], c: usize, i: usize, sel: Sel) {
    if F::SYMBOLIC {
        crate::reset();
    }
    let base = batch_inst::<F>(heights, widths, c, i);
    let h = heights[0] - c;
    let bounds = format!("leaf heights {heights:?}, widths {widths:?}, cap_height {c}, position {i}; leaf rows, every sibling and every cap entry symbols");
    let acc0 = accept_batch::<F>(&base.data, heights, i, &base.cap, &base.proof);
    ctx.add(
        Ob::new(format!("{idp}.accept-path"), F_VERIFY, bounds.clone())
            .sample("verify_batch_merkle_proof_to_cap reaches Ok on the path where the final comparison holds (all leaf rows consumed, no index panic)")
            .goal(A::Bool(matches!(acc0, A::Accept(true, _)))),
    );
    let all = sel.all;
    {
        let mut deltas = vec![];
        let mut data = base.data.clone();
        for (m, row) in data.iter_mut().enumerate() {
            for (e, x) in row.iter_mut().enumerate() {
                let d = F::var(&format!("delta_row{m}_{e}"));
                *x += d;
                deltas.push(d);
            }
        }
        let mut proof = base.proof.clone();
        for (l, sb) in proof.siblings.iter_mut().enumerate() {
            for lane in 0..4 {
                let d = F::var(&format!("delta_sib{l}.{lane}"));
                sb.elements[lane] += d;
                deltas.push(d);
            }
        }
        let acc1 = accept_batch::<F>(&data, heights, i, &base.cap, &proof);
        ctx.add(
            Ob::new(format!("{idp}.binding"), F_VERIFY, bounds.clone())
                .sample(format!("AcceptBatch(rows, {i}, proof, cap) /\\ AcceptBatch(rows', {i}, proof', cap)  ==>  rows' == rows /\\ proof' == proof  ({} independent deltas)", deltas.len()))
                .hyp(acc0.clone())
                .hyp(acc1)
                .goals(deltas.iter().map(|d| eq(*d, F::ZERO)).collect())
                .injective()
                .key("merkle-batch-verifier:not-binding"),
        );
    }
    if !sel.pins {
        return;
    }
    let delta = F::var("delta");
    let pin = |ctx: &mut Ctx, what: String, acc1: A, key: &str| {
        ctx.add(
            Ob::new(format!("{idp}.pin.{what}"), F_VERIFY, bounds.clone())
                .sample(format!("AcceptBatch(rows, {i}, proof, cap) /\\ AcceptBatch(the same with {what} += delta)  ==>  delta == 0"))
                .hyp(acc0.clone())
                .hyp(acc1)
                .goal(eq(delta, F::ZERO))
                .injective()
                .key(format!("merkle-batch-verifier:unpinned:{key}")),
        );
    };
    for m in 0..heights.len() {
        let w = widths[m];
        let elems: Vec<usize> = if all || w <= 2 { (0..w).collect() } else { vec![0, w - 1] };
        for e in elems {
            let mut data = base.data.clone();
            data[m][e] += delta;
            let acc1 = accept_batch::<F>(&data, heights, i, &base.cap, &base.proof);
            pin(ctx, format!("row{m}_{e}"), acc1, "leaf");
        }
    }
    for l in sib_levels(h, sel.levels) {
        for lane in lanes(all) {
            let mut proof = base.proof.clone();
            proof.siblings[l].elements[lane] += delta;
            let acc1 = accept_batch::<F>(&base.data, heights, i, &base.cap, &proof);
            pin(ctx, format!("sib{l}.{lane}"), acc1, "sibling");
        }
    }
    for lane in lanes(all) {
        let mut cap = base.cap.clone();
        cap.0[i >> h].elements[lane] += delta;
        let acc1 = accept_batch::<F>(&base.data, heights, i, &cap, &base.proof);
        pin(ctx, format!("cap{}.{lane}", i >> h), acc1, "cap");
    }
}

// ------------------------------------------------------------------------------------------
// group 3: Ob16.1
// ------------------------------------------------------------------------------------------

/// ordered index tuples (the algorithms are order-sensitive) of length 1..=max_len
fn all_tuples(n: usize, max_len: usize) -> Vec<Vec<usize>> {
    let mut out: Vec<Vec<usize>> = vec![];
    let mut cur: Vec<Vec<usize>> = vec![vec![]];
    for _ in 0..max_len {
        let mut next = vec![];
        for t in &cur {
            for i in 0..n {
                let mut u = t.clone();
                u.push(i);
                next.push(u);
            }
        }
        out.extend(next.iter().cloned());
        cur = next;
    }
    out
}

/// representative tuples: single, repeats, siblings (same pair), same coset of 4, distant, mixed
fn quick_tuples(n: usize) -> Vec<Vec<usize>> {
    let l = n - 1;
    let mut v = vec![vec![0], vec![l]];
    if n >= 2 {
        v.extend([vec![0, 0], vec![0, 1], vec![1, 0], vec![l, 0], vec![l, l, l], vec![1, 0, 1], vec![0, l, 0]]);
    }
    if n >= 4 {
        v.extend([vec![0, 2], vec![3, 1], vec![2, 3, 0], vec![1, 2, l], vec![0, 3, 1], vec![n / 2, n / 2 - 1], vec![n / 2 - 1, n / 2, 0]]);
    }
    if n >= 8 {
        v.extend([vec![0, 4], vec![5, 2, 7], vec![6, 7, 1], vec![3, 4, 3], vec![1, 6, 4]]);
    }
    v.sort();
    v.dedup();
    v
}

fn tname(t: &[usize]) -> String {
    t.iter().map(|i| i.to_string()).collect::<Vec<_>>().join("_")
}

fn paths_obs<F: VF>(ctx: &mut Ctx, idp: &str, height: usize, c: usize, w: usize, tuples: &[Vec<usize>]) {
    if F::SYMBOLIC {
        crate::reset();
    }
    let n = 1usize << height;
    let leaves = sym_leaves::<F>("leaf", n, w);
    let tree = with_placeholders::<F, _>(|| MerkleTree::<F, H>::new(leaves.clone(), c));
    let all_proofs: Vec<MerkleProof<F, H>> = (0..n).map(|i| tree.prove(i)).collect();
    for t in tuples {
        let proofs: Vec<MerkleProof<F, H>> = t.iter().map(|&i| all_proofs[i].clone()).collect();
        let data: Vec<Vec<F>> = t.iter().map(|&i| leaves[i].clone()).collect();
        let comp = hooks::compress_merkle_proofs::<F, H>(c, t, &proofs);
        let dec = with_placeholders::<F, _>(|| hooks::decompress_merkle_proofs::<F, H>(&data, t, &comp, height, c));
        let n_comp: usize = comp.iter().map(|p| p.siblings.len()).sum();
        let n_orig: usize = proofs.iter().map(|p| p.siblings.len()).sum();
        ctx.add(
            Ob::new(format!("{idp}.idx{}", tname(t)), F_PATHS, format!("real tree of height {height} over symbolic leaves of width {w}, cap_height {c}; index tuple {t:?} (ordered, repeats allowed)"))
                .sample(format!("decompress_merkle_proofs(leaves, {t:?}, compress_merkle_proofs({c}, {t:?}, proofs), {height}, {c}) == proofs (every sibling, lane-wise); compression never grows"))
                .assume(SEQ)
                .goal(A::Bool(comp.len() == t.len() && n_comp <= n_orig))
                .goals(eq_proofs::<F>(&dec, &proofs))
                .key("path-compression:roundtrip"),
        );
    }
}


// ------------------------------------------------------------------------------------------
// group 4: Ob16.2  Proof::compress -> get_inferred_elements -> CompressedProof::decompress
// ------------------------------------------------------------------------------------------

const F_FRI: &[&str] = &[
    "plonky2/src/fri/proof.rs::FriProof::compress",
    "plonky2/src/fri/proof.rs::CompressedFriProof::decompress",
    "plonky2/src/plonk/proof.rs::Proof::compress",
    "plonky2/src/plonk/proof.rs::CompressedProof::decompress",
    "plonky2/src/plonk/get_challenges.rs::CompressedProofWithPublicInputs::get_inferred_elements",
    "plonky2/src/hash/path_compression.rs::compress_merkle_proofs",
    "plonky2/src/hash/path_compression.rs::decompress_merkle_proofs",
    "plonky2/src/fri/verifier.rs::fri_combine_initial",
    "plonky2/src/fri/verifier.rs::compute_evaluation",
    "plonky2/src/plonk/circuit_data.rs::CommonCircuitData::get_fri_instance",
];

#[derive(Clone, Debug)]
struct FShape {
    name: &'static str,
    degree_bits: usize,
    rate_bits: usize,
    cap_height: usize,
    arity_bits: Vec<usize>,
    /// ordered query-index tuples (2..=3 rounds)
    tuples: Vec<Vec<usize>>,
}

// plonk layout of the hand-built CommonCircuitData: oracle widths [3, 5, 2, 2]
const NUM_CONSTANTS: usize = 1;
const NUM_ROUTED: usize = 2;
const NUM_WIRES: usize = 5;
const NUM_CHALLENGES: usize = 2;

fn common_of<F: VF>(sh: &FShape, num_queries: usize) -> CommonCircuitData<F, 2> {
    let fri_config = FriConfig {
        rate_bits: sh.rate_bits,
        cap_height: sh.cap_height,
        proof_of_work_bits: 0,
        reduction_strategy: FriReductionStrategy::Fixed(sh.arity_bits.clone()),
        num_query_rounds: num_queries,
    };
    CommonCircuitData {
        config: CircuitConfig {
            num_wires: NUM_WIRES,
            num_routed_wires: NUM_ROUTED,
            num_constants: NUM_CONSTANTS,
            use_base_arithmetic_gate: true,
            security_bits: 100,
            num_challenges: NUM_CHALLENGES,
            zero_knowledge: false,
            max_quotient_degree_factor: 1,
            fri_config: fri_config.clone(),
        },
        fri_params: FriParams { config: fri_config, hiding: false, degree_bits: sh.degree_bits, reduction_arity_bits: sh.arity_bits.clone() },
        gates: vec![],
        selectors_info: hooks::empty_selectors_info(),
        quotient_degree_factor: 1,
        num_gate_constraints: 0,
        num_constants: NUM_CONSTANTS,
        num_public_inputs: 0,
        k_is: vec![],
        num_partial_products: 0,
        num_lookup_polys: 0,
        num_lookup_selectors: 0,
        luts: vec![],
    }
}

fn ext_of<F: VF>(a: F, b: F) -> Ext<F> {
    <Ext<F> as FieldExtension<2>>::from_basefield_array([a, b])
}

/// concrete pseudo-random challenge (held fixed, as in the C05 family)
fn chal<F: VF>(seed: u64, k: u64) -> F {
    let mut h = seed.wrapping_mul(0x9E37_79B9_7F4A_7C15) ^ (k.wrapping_add(1)).wrapping_mul(0xD6E8_FEB8_6659_FD93);
    h ^= h >> 31;
    h = h.wrapping_mul(0xBF58_476D_1CE4_E5B9);
    h ^= h >> 29;
    F::from_noncanonical_u64(h)
}

fn rev_bits(x: usize, bits: usize) -> usize {
    (0..bits).fold(0, |acc, b| acc | (((x >> b) & 1) << (bits - 1 - b)))
}

struct FBundle<F: VF> {
    common: CommonCircuitData<F, 2>,
    proof: Proof<F, F::Cfg, 2>,
    challenges: ProofChallenges<F, 2>,
    /// reference list of inferred elements: for every query in order, for every step in order,
    /// the value flowing into the step unless that (step, coset) was reconstructed before
    inferred_ref: Vec<Ext<F>>,
}

/// An honest-by-construction proof: every oracle is a REAL `MerkleTree` over symbolic leaves, every
/// commit-phase layer a real tree over symbolic coset evaluations, except that the evaluation at a
/// queried position is the value the verifier's own `fri_combine_initial` / `compute_evaluation`
/// produce for that query (what an accepted proof must contain there).
fn fri_bundle<F: VF>(sh: &FShape, indices: &[usize]) -> FBundle<F> {
    let common = common_of::<F>(sh, indices.len());
    let params = common.fri_params.clone();
    let lde_bits = sh.degree_bits + sh.rate_bits;
    let n = 1usize << lde_bits;
    let seed = 0xc16_0000 + lde_bits as u64 * 977 + sh.cap_height as u64;
    let zeta = ext_of::<F>(chal::<F>(seed, 1), chal::<F>(seed, 2));
    let alpha = ext_of::<F>(chal::<F>(seed, 3), chal::<F>(seed, 4));
    let betas: Vec<Ext<F>> = (0..sh.arity_bits.len()).map(|i| ext_of::<F>(chal::<F>(seed, 10 + 2 * i as u64), chal::<F>(seed, 11 + 2 * i as u64))).collect();
    let widths = [NUM_CONSTANTS + NUM_ROUTED, NUM_WIRES, NUM_CHALLENGES, NUM_CHALLENGES];
    let leaves: Vec<Vec<Vec<F>>> = (0..4).map(|o| sym_leaves::<F>(&format!("o{o}l"), n, widths[o])).collect();
    let trees: Vec<MerkleTree<F, H>> = with_placeholders::<F, _>(|| leaves.iter().map(|l| MerkleTree::<F, H>::new(l.clone(), sh.cap_height)).collect());
    let exts = |name: &str, k: usize| -> Vec<Ext<F>> { (0..k).map(|i| F::ext(&format!("{name}{i}"))).collect() };
    let openings = OpeningSet::<F, 2> {
        constants: exts("op_const", NUM_CONSTANTS),
        plonk_sigmas: exts("op_sigma", NUM_ROUTED),
        wires: exts("op_wire", NUM_WIRES),
        plonk_zs: exts("op_z", NUM_CHALLENGES),
        plonk_zs_next: exts("op_znext", NUM_CHALLENGES),
        partial_products: vec![],
        quotient_polys: exts("op_quot", NUM_CHALLENGES),
        lookup_zs: vec![],
        lookup_zs_next: vec![],
    };
    let instance = hooks::common_fri_instance::<F, 2>(&common, zeta);
    let fri_openings = hooks::opening_set_to_fri_openings::<F, 2>(&openings);

    let nq = indices.len();
    let init: Vec<FriInitialTreeProof<F, H>> = indices
        .iter()
        .map(|&x| FriInitialTreeProof { evals_proofs: (0..4).map(|o| (leaves[o][x].clone(), trees[o].prove(x))).collect() })
        .collect();
    let mut x_idx: Vec<usize> = indices.to_vec();
    let mut sub_x: Vec<F> = indices
        .iter()
        .map(|&x| F::MULTIPLICATIVE_GROUP_GENERATOR * F::primitive_root_of_unity(lde_bits).exp_u64(rev_bits(x, lde_bits) as u64))
        .collect();
    let mut old: Vec<Ext<F>> = (0..nq)
        .map(|q| hooks::fri_combine_initial::<F, F::Cfg, 2>(&instance, &init[q], alpha, sub_x[q], &fri_openings, &params))
        .collect();
    let mut steps: Vec<Vec<FriQueryStep<F, H, 2>>> = vec![vec![]; nq];
    let mut commit_caps = vec![];
    let mut flows: Vec<Vec<(usize, Ext<F>)>> = vec![vec![]; nq]; // per query: (coset, value flowing in) per step
    let mut bits = lde_bits;
    for (s, &a) in sh.arity_bits.iter().enumerate() {
        bits -= a;
        let arity = 1usize << a;
        let mut e: Vec<Vec<Option<Ext<F>>>> = vec![vec![None; arity]; 1usize << bits];
        for q in 0..nq {
            let (coset, within) = (x_idx[q] >> a, x_idx[q] & (arity - 1));
            if e[coset][within].is_none() {
                e[coset][within] = Some(old[q]);
            }
        }
        let e: Vec<Vec<Ext<F>>> = e
            .into_iter()
            .enumerate()
            .map(|(cs, row)| row.into_iter().enumerate().map(|(k, v)| v.unwrap_or_else(|| F::ext(&format!("s{s}c{cs}_{k}")))).collect())
            .collect();
        let tree = with_placeholders::<F, _>(|| MerkleTree::<F, H>::new(e.iter().map(|row| flatten::<F, 2>(row)).collect(), sh.cap_height));
        for q in 0..nq {
            let (coset, within) = (x_idx[q] >> a, x_idx[q] & (arity - 1));
            flows[q].push((coset, old[q]));
            steps[q].push(FriQueryStep { evals: e[coset].clone(), merkle_proof: tree.prove(coset) });
            old[q] = hooks::compute_evaluation::<F, 2>(sub_x[q], within, a, &e[coset], betas[s]);
            sub_x[q] = sub_x[q].exp_power_of_2(a);
            x_idx[q] = coset;
        }
        commit_caps.push(tree.cap.clone());
    }
    let mut inferred_ref = vec![];
    let mut seen: Vec<Vec<usize>> = vec![vec![]; sh.arity_bits.len()];
    for q in 0..nq {
        for (s, (coset, v)) in flows[q].iter().enumerate() {
            if !seen[s].contains(coset) {
                seen[s].push(*coset);
                inferred_ref.push(*v);
            }
        }
    }
    let total: usize = sh.arity_bits.iter().sum();
    let final_len = 1usize << (sh.degree_bits - total);
    let opening_proof = FriProof::<F, H, 2> {
        commit_phase_merkle_caps: commit_caps,
        query_round_proofs: (0..nq).map(|q| FriQueryRound { initial_trees_proof: init[q].clone(), steps: steps[q].clone() }).collect(),
        final_poly: PolynomialCoeffs::new((0..final_len).map(|k| F::ext(&format!("final{k}"))).collect()),
        pow_witness: F::var("pow_witness"),
    };
    let proof = Proof::<F, F::Cfg, 2> {
        wires_cap: trees[1].cap.clone(),
        plonk_zs_partial_products_cap: trees[2].cap.clone(),
        quotient_polys_cap: trees[3].cap.clone(),
        openings,
        opening_proof,
    };
    let challenges = ProofChallenges::<F, 2> {
        plonk_betas: vec![],
        plonk_gammas: vec![],
        plonk_alphas: vec![],
        plonk_deltas: vec![],
        plonk_zeta: zeta,
        fri_challenges: FriChallenges { fri_alpha: alpha, fri_betas: betas, fri_pow_response: F::ZERO, fri_query_indices: indices.to_vec() },
    };
    FBundle { common, proof, challenges, inferred_ref }
}

fn eq_exts<F: VF>(a: &[Ext<F>], b: &[Ext<F>]) -> Vec<A> {
    let mut g = vec![A::Bool(a.len() == b.len())];
    for (x, y) in a.iter().zip(b) {
        g.extend(crate::ctx::eq_ext::<F>(*x, *y));
    }
    g
}

fn eq_cap_pair<F: VF>(a: &MerkleCap<F, H>, b: &MerkleCap<F, H>) -> Vec<A> {
    let mut g = vec![A::Bool(a.0.len() == b.0.len())];
    for (x, y) in a.0.iter().zip(&b.0) {
        g.extend(eq_dig::<F>(&x.elements, &y.elements));
    }
    g
}

fn fri_obs<F: VF>(ctx: &mut Ctx, idp: &str, sh: &FShape, indices: &[usize]) {
    if F::SYMBOLIC {
        crate::reset();
    }
    let b = fri_bundle::<F>(sh, indices);
    let params = b.common.fri_params.clone();
    let bounds = format!(
        "FRI shape {} (degree_bits {}, rate_bits {}, cap_height {}, arity_bits {:?}), oracle widths [3,5,2,2] (hand-built CommonCircuitData), query indices {indices:?}; every oracle / commit-phase tree a real MerkleTree over symbols, openings and final polynomial symbols, challenges fixed to seeded constants",
        sh.name, sh.degree_bits, sh.rate_bits, sh.cap_height, sh.arity_bits
    );
    let honest = "the original proof is honest by construction: the evaluation at each queried position of a commit-phase layer is the value the verifier's fri_combine_initial / compute_evaluation give (what Accept forces); all other contents are free symbols";
    let compressed = b.proof.clone().compress(indices, &params);
    let cpw = CompressedProofWithPublicInputs::<F, F::Cfg, 2> { proof: compressed.clone(), public_inputs: vec![] };
    let inferred = hooks::get_inferred_elements::<F, F::Cfg, 2>(&cpw, &b.challenges, &b.common);
    ctx.add(
        Ob::new(format!("{idp}.inferred"), F_FRI, bounds.clone())
            .sample("get_inferred_elements(compress(proof)) == for every query, every step: the value flowing into the step (fri_combine_initial, then compute_evaluation), skipping cosets already reconstructed")
            .assume(honest)
            .assume(SEQ)
            .goals(eq_exts::<F>(&inferred, &b.inferred_ref))
            .key("fri-compression:inferred-elements"),
    );
    let dec: Proof<F, F::Cfg, 2> = with_placeholders::<F, _>(|| hooks::compressed_proof_decompress::<F, F::Cfg, 2>(compressed.clone(), &b.challenges, inferred.clone(), &params));
    let (p, d) = (&b.proof, &dec);
    // everything outside the query rounds
    let mut g = vec![];
    g.extend(eq_cap_pair::<F>(&d.wires_cap, &p.wires_cap));
    g.extend(eq_cap_pair::<F>(&d.plonk_zs_partial_products_cap, &p.plonk_zs_partial_products_cap));
    g.extend(eq_cap_pair::<F>(&d.quotient_polys_cap, &p.quotient_polys_cap));
    g.extend(eq_exts::<F>(&hooks::opening_set_to_fri_openings::<F, 2>(&d.openings).batches.iter().flat_map(|x| x.values.clone()).collect::<Vec<_>>(), &hooks::opening_set_to_fri_openings::<F, 2>(&p.openings).batches.iter().flat_map(|x| x.values.clone()).collect::<Vec<_>>()));
    g.push(A::Bool(d.openings == p.openings || F::SYMBOLIC));
    let (fp, fd) = (&p.opening_proof, &d.opening_proof);
    g.push(A::Bool(fd.commit_phase_merkle_caps.len() == fp.commit_phase_merkle_caps.len()));
    for (x, y) in fd.commit_phase_merkle_caps.iter().zip(&fp.commit_phase_merkle_caps) {
        g.extend(eq_cap_pair::<F>(x, y));
    }
    g.extend(eq_exts::<F>(&fd.final_poly.coeffs, &fp.final_poly.coeffs));
    g.push(eq(fd.pow_witness, fp.pow_witness));
    g.push(A::Bool(fd.query_round_proofs.len() == fp.query_round_proofs.len()));
    ctx.add(
        Ob::new(format!("{idp}.roundtrip.outer"), F_FRI, bounds.clone())
            .sample("decompress(compress(proof)): caps, openings, commit-phase caps, final polynomial, pow witness and the number of query rounds equal the original")
            .assume(honest)
            .goals(g)
            .key("fri-compression:roundtrip"),
    );
    let mut gi = vec![];
    let mut gs = vec![];
    for (rd, rp) in fd.query_round_proofs.iter().zip(&fp.query_round_proofs) {
        let (id, ip) = (&rd.initial_trees_proof.evals_proofs, &rp.initial_trees_proof.evals_proofs);
        gi.push(A::Bool(id.len() == ip.len()));
        for ((ed, pd), (ep, pp)) in id.iter().zip(ip) {
            gi.push(A::Bool(ed.len() == ep.len()));
            gi.extend(ed.iter().zip(ep).map(|(x, y)| eq(*x, *y)));
            gi.extend(eq_proofs::<F>(core::slice::from_ref(pd), core::slice::from_ref(pp)));
        }
        gs.push(A::Bool(rd.steps.len() == rp.steps.len()));
        for (sd, sp) in rd.steps.iter().zip(&rp.steps) {
            gs.extend(eq_exts::<F>(&sd.evals, &sp.evals));
            gs.extend(eq_proofs::<F>(core::slice::from_ref(&sd.merkle_proof), core::slice::from_ref(&sp.merkle_proof)));
        }
    }
    ctx.add(
        Ob::new(format!("{idp}.roundtrip.initial"), F_FRI, bounds.clone())
            .sample("decompress(compress(proof)): every query round's initial-tree leaves and Merkle paths equal the original (lane-wise)")
            .assume(honest)
            .assume(SEQ)
            .goals(gi)
            .key("fri-compression:roundtrip"),
    );
    ctx.add(
        Ob::new(format!("{idp}.roundtrip.steps"), F_FRI, bounds.clone())
            .sample("decompress(compress(proof)): every query step's coset evaluations (with the inferred element re-inserted) and Merkle path equal the original")
            .assume(honest)
            .assume(SEQ)
            .goals(gs)
            .key("fri-compression:roundtrip"),
    );
    // the compressed form really drops what can be inferred
    let n_orig: usize = fp.query_round_proofs.iter().map(|r| r.steps.iter().map(|s| s.evals.len()).sum::<usize>()).sum();
    let n_comp: usize = compressed.opening_proof.query_round_proofs.steps.iter().map(|m| m.values().map(|s| s.evals.len()).sum::<usize>()).sum();
    ctx.add(
        Ob::new(format!("{idp}.drops-inferred"), F_FRI, bounds.clone())
            .sample("every stored compressed step has arity-1 evaluations; one step per distinct (depth, coset); one initial proof per distinct index")
            .goal(A::Bool(n_comp + b.inferred_ref.len() <= n_orig))
            .goal(A::Bool(compressed.opening_proof.query_round_proofs.steps.iter().zip(&sh.arity_bits).all(|(m, &a)| m.values().all(|s| s.evals.len() + 1 == 1usize << a))))
            .goal(A::Bool(compressed.opening_proof.query_round_proofs.steps.iter().map(|m| m.len()).sum::<usize>() == b.inferred_ref.len()))
            .goal(A::Bool(compressed.opening_proof.query_round_proofs.initial_trees_proofs.len() == {
                let mut u = indices.to_vec();
                u.sort();
                u.dedup();
                u.len()
            })),
    );
}

fn fshapes(thorough: bool) -> Vec<FShape> {
    // FRI parameters of the C05 shapes (fri.rs `shapes()`); tuples: all distinct / two equal / same
    // coset at layer 0 / collision only at a deeper layer / mixtures
    let mut v = vec![
        FShape { name: "d3r1c1-a11", degree_bits: 3, rate_bits: 1, cap_height: 1, arity_bits: vec![1, 1], tuples: vec![vec![5, 10], vec![5, 5], vec![4, 5], vec![4, 6], vec![3, 12, 6], vec![7, 2, 7], vec![9, 8, 3], vec![13, 15, 2], vec![4, 6, 5], vec![11, 11, 11]] },
        FShape { name: "d3r1c0-a2", degree_bits: 3, rate_bits: 1, cap_height: 0, arity_bits: vec![2], tuples: vec![vec![1, 14], vec![14, 14], vec![4, 7], vec![8, 9, 11], vec![6, 1, 6], vec![0, 15, 12]] },
        FShape { name: "d2r2c2-a1", degree_bits: 2, rate_bits: 2, cap_height: 2, arity_bits: vec![1], tuples: vec![vec![3, 8], vec![3, 3], vec![2, 3], vec![2, 3, 2], vec![15, 0, 14]] },
        // three reductions: the value flowing into the last step depends on subgroup_x / x_index having
        // been advanced correctly after the first one
        FShape { name: "d4r1c1-a111", degree_bits: 4, rate_bits: 1, cap_height: 1, arity_bits: vec![1, 1, 1], tuples: vec![vec![21, 9], vec![21, 21], vec![20, 21], vec![20, 22], vec![16, 20], vec![5, 30, 7], vec![26, 24, 27]] },
        // non-uniform schedules: per-step tree heights are a running difference (not a multiple of
        // one arity), and coset indices of different depths live in ranges that overlap numerically
        // (pairs (x, y) with x >> 2 == y >> 3 for [2, 1]; x >> 1 == y >> 3 for [1, 2])
        FShape { name: "d4r1c1-a21", degree_bits: 4, rate_bits: 1, cap_height: 1, arity_bits: vec![2, 1], tuples: vec![vec![21, 21], vec![21, 22], vec![21, 17], vec![21, 25, 3], vec![0, 31, 16], vec![8, 12, 9], vec![5, 12], vec![12, 5], vec![1, 6], vec![6, 1], vec![13, 27, 6]] },
        FShape { name: "d4r1c1-a12", degree_bits: 4, rate_bits: 1, cap_height: 1, arity_bits: vec![1, 2], tuples: vec![vec![7, 7], vec![7, 6], vec![5, 20], vec![20, 5], vec![3, 9, 30], vec![2, 11, 8]] },
    ];
    if thorough {
        v.push(FShape { name: "d6r1c0-a321", degree_bits: 6, rate_bits: 1, cap_height: 0, arity_bits: vec![3, 2, 1], tuples: vec![vec![37, 37], vec![37, 9], vec![9, 37, 20], vec![63, 0, 31], vec![100, 25, 12]] });
        v.push(FShape { name: "d3r1c0-a3", degree_bits: 3, rate_bits: 1, cap_height: 0, arity_bits: vec![3], tuples: vec![vec![9, 9], vec![9, 12], vec![1, 9, 10]] });
        v.push(FShape { name: "d3r1c1-a0", degree_bits: 3, rate_bits: 1, cap_height: 1, arity_bits: vec![], tuples: vec![vec![2, 2], vec![2, 3], vec![2, 13, 3]] });
        // every ordered pair of indices for the three quick shapes
        for sh in v.iter_mut().take(3) {
            // (the three 16-point shapes)
            let n = 1usize << (sh.degree_bits + sh.rate_bits);
            for a in 0..n {
                for b in 0..n {
                    if !sh.tuples.contains(&vec![a, b]) {
                        sh.tuples.push(vec![a, b]);
                    }
                }
            }
        }
    }
    v
}

// ------------------------------------------------------------------------------------------
// family
// ------------------------------------------------------------------------------------------

pub fn family<F: VF>(ctx: &mut Ctx) {
    let th = ctx.thorough();
    // group 1
    let kmax = if th { 5 } else { 4 };
    for k in 0..=kmax {
        for c in 0..=k {
            for w in [1usize, 4, 5, 9] {
                let idp = format!("C12.S.merkle.tree.n{}c{c}w{w}", 1usize << k);
                ctx.guarded(&idp.clone(), F_TREE, |ctx| tree_obs::<F>(ctx, &idp, k, c, w));
            }
        }
    }
    // group 2: single trees. Thorough: every shape; every position of trees with <= 16 leaves; every
    // sibling; every lane on a diagonal of shapes. Quick: the binding obligation for every shape
    // with proof length <= 3 (three positions for short proofs, one for long ones) and a diagonal
    // of the length-4 shapes; single-delta pins and mirrored positions on a diagonal of shapes.
    for h in 0..=4usize {
        for c in 0..=2usize {
            for (wi, w) in [1usize, 4, 5].into_iter().enumerate() {
                let n = 1usize << (h + c);
                let diag = (h + c) % 3 == wi;
                // thorough: every position of trees with <= 16 leaves, six positions of bigger ones
                let pos: Vec<usize> = if th {
                    if n <= 16 { (0..n).collect() } else { vec![0, 1, n / 2 - 1, (5 * h + 3 * c + 7 * w) % n, n - 2, n - 1] }
                } else if h <= 2 {
                    spread(n, false)
                } else {
                    vec![(5 * h + 3 * c + 7 * w) % n]
                };
                let mut pos = pos;
                if th {
                    pos.sort();
                } else if h == 4 && !diag {
                    // quick tier: the longest proofs only on the diagonal (solver time under load)
                    pos.clear();
                }
                pos.dedup();
                for (pi, &i) in pos.iter().enumerate() {
                    let sel = if th {
                        // every lane / element / sibling on the diagonal of shapes, lanes {0,3} elsewhere
                        Sel { pins: true, mirrors: true, all: diag, levels: true }
                    } else {
                        Sel { pins: diag && (h <= 2 || pi == 0), mirrors: diag && (h <= 2 || pi == 0), all: false, levels: false }
                    };
                    let idp = format!("C12.S.merkle.bind.h{h}c{c}w{w}.i{i}");
                    ctx.guarded(&idp.clone(), F_VERIFY, |ctx| bind_obs::<F>(ctx, &idp, h, c, w, i, sel));
                }
            }
        }
    }
    // group 2: batch trees (matrix heights strictly decreasing, as BatchMerkleTree::new demands)
    let mut combos: Vec<(Vec<usize>, Vec<usize>)> = vec![(vec![3, 2], vec![2, 3]), (vec![3, 1], vec![5, 1]), (vec![2, 1], vec![1, 2])];
    if th {
        combos.push((vec![3, 2, 1], vec![1, 2, 1]));
        // (heights [3, 2] with leaf widths 9 and 5 is NOT in the table: a 9-element leaf is absorbed by
        // two permutations, and with the per-call injectivity instances of the ideal-hash model the
        // solvers return models that do not replay natively - 216 inconclusive obligations in the
        // last thorough run; multi-permutation leaves are covered for single trees only)
        combos.push((vec![3, 0], vec![4, 1]));
    }
    for (ci, (heights, widths)) in combos.iter().enumerate() {
        let last = *heights.last().unwrap();
        // two combinations with the same heights get distinct names (the widths are appended)
        let tag = if combos[..ci].iter().any(|(h2, _)| h2 == heights) { format!("{}w{}", hname(heights), hname(widths)) } else { hname(heights) };
        for c in 0..=last {
            let idp = format!("C12.S.merkle.batchtree.h{tag}c{c}");
            ctx.guarded(&idp.clone(), F_BATCH, |ctx| batch_tree_obs::<F>(ctx, &idp, heights, widths, c));
            let n = 1usize << heights[0];
            let pos: Vec<usize> = if th { if n <= 4 { (0..n).collect() } else { vec![0, 2, 5, n - 1] } } else { vec![(3 * ci + 5 * c + 1) % (n - 2), n - 1 - (ci + c) % 2] };
            let mut pos = pos;
            pos.dedup();
            for (pi, &i) in pos.iter().enumerate() {
                let sel = if th { Sel { pins: true, mirrors: false, all: true, levels: true } } else { Sel { pins: pi == 0 && c == (ci % (last + 1)), mirrors: false, all: false, levels: false } };
                let idp = format!("C12.S.merkle.batchbind.h{tag}c{c}.i{i}");
                ctx.guarded(&idp.clone(), F_VERIFY, |ctx| batch_bind_obs::<F>(ctx, &idp, heights, widths, c, i, sel));
            }
        }
    }
    // group 3
    let hmax = if th { 4 } else { 3 };
    for height in 0..=hmax {
        for c in 0..=height {
            for w in [1usize, 5] {
                let n = 1usize << height;
                let tuples = if th { all_tuples(n, if height == 4 { 2 } else { 3 }) } else { quick_tuples(n) };
                let idp = format!("C16.S.merkle.paths.h{height}c{c}w{w}");
                ctx.guarded(&idp.clone(), F_PATHS, |ctx| paths_obs::<F>(ctx, &idp, height, c, w, &tuples));
            }
        }
    }
    // group 4
    for sh in fshapes(th) {
        for t in &sh.tuples {
            let idp = format!("C16.S.merkle.fri.{}.idx{}", sh.name, tname(t));
            ctx.guarded(&idp.clone(), F_FRI, |ctx| fri_obs::<F>(ctx, &idp, &sh, t));
        }
    }
}
