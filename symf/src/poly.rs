//! Canonical normal form of arena terms: a fraction N / D of polynomials over GF(p) whose
//! indeterminates are the free symbols (variables and `Perm` outputs). `Inv(x)` is handled
//! structurally (x = N/D  =>  Inv(x) = D/N, with N registered as a *denominator atom* that the
//! query assumes non-zero). This is the encoder's simplifier: sound rewriting by the field
//! axioms; the SMT solver then decides the (normalised) query.
use std::collections::{BTreeMap, HashMap};
use std::rc::Rc;

use crate::{node_of, Node, Op, P};

pub type Mono = Vec<(u32, u16)>; // sorted by atom id; atom = arena node id of a Var / Perm node

#[derive(Clone, Debug, PartialEq, Eq, Default)]
pub struct Poly {
    pub t: BTreeMap<Mono, u64>, // coefficient in 1..p
}

const MAX_TERMS: usize = 400_000;

#[inline]
fn addm(a: u64, b: u64) -> u64 {
    ((a as u128 + b as u128) % P as u128) as u64
}
#[inline]
fn mulm(a: u64, b: u64) -> u64 {
    ((a as u128 * b as u128) % P as u128) as u64
}
#[inline]
fn negm(a: u64) -> u64 {
    if a == 0 {
        0
    } else {
        P - a
    }
}
pub fn powm(mut b: u64, mut e: u64) -> u64 {
    let mut r = 1u64;
    while e > 0 {
        if e & 1 == 1 {
            r = mulm(r, b);
        }
        b = mulm(b, b);
        e >>= 1;
    }
    r
}
pub fn invm(a: u64) -> u64 {
    assert!(a % P != 0);
    powm(a, P - 2)
}

fn mono_mul(a: &Mono, b: &Mono) -> Mono {
    let mut r = Vec::with_capacity(a.len() + b.len());
    let (mut i, mut j) = (0, 0);
    while i < a.len() && j < b.len() {
        if a[i].0 == b[j].0 {
            r.push((a[i].0, a[i].1 + b[j].1));
            i += 1;
            j += 1;
        } else if a[i].0 < b[j].0 {
            r.push(a[i]);
            i += 1;
        } else {
            r.push(b[j]);
            j += 1;
        }
    }
    r.extend_from_slice(&a[i..]);
    r.extend_from_slice(&b[j..]);
    r
}

impl Poly {
    pub fn zero() -> Self {
        Poly::default()
    }
    pub fn constant(c: u64) -> Self {
        let mut p = Poly::default();
        if c % P != 0 {
            p.t.insert(vec![], c % P);
        }
        p
    }
    pub fn atom(id: u32) -> Self {
        let mut p = Poly::default();
        p.t.insert(vec![(id, 1)], 1);
        p
    }
    pub fn is_zero(&self) -> bool {
        self.t.is_empty()
    }
    pub fn as_constant(&self) -> Option<u64> {
        if self.t.is_empty() {
            return Some(0);
        }
        if self.t.len() == 1 {
            if let Some(c) = self.t.get(&vec![]) {
                return Some(*c);
            }
        }
        None
    }
    fn add_term(&mut self, m: Mono, c: u64) {
        if c == 0 {
            return;
        }
        match self.t.get_mut(&m) {
            Some(x) => {
                let s = addm(*x, c);
                if s == 0 {
                    self.t.remove(&m);
                } else {
                    *x = s;
                }
            }
            None => {
                self.t.insert(m, c);
            }
        }
    }
    pub fn add(&self, o: &Poly) -> Poly {
        let mut r = self.clone();
        for (m, c) in &o.t {
            r.add_term(m.clone(), *c);
        }
        r
    }
    pub fn neg(&self) -> Poly {
        Poly { t: self.t.iter().map(|(m, c)| (m.clone(), negm(*c))).collect() }
    }
    pub fn sub(&self, o: &Poly) -> Poly {
        self.add(&o.neg())
    }
    pub fn scale(&self, k: u64) -> Poly {
        if k % P == 0 {
            return Poly::zero();
        }
        Poly { t: self.t.iter().map(|(m, c)| (m.clone(), mulm(*c, k))).collect() }
    }
    pub fn mul(&self, o: &Poly) -> Poly {
        if let Some(c) = self.as_constant() {
            return o.scale(c);
        }
        if let Some(c) = o.as_constant() {
            return self.scale(c);
        }
        let mut r = Poly::default();
        for (m1, c1) in &self.t {
            for (m2, c2) in &o.t {
                r.add_term(mono_mul(m1, m2), mulm(*c1, *c2));
            }
            assert!(r.t.len() <= MAX_TERMS, "polynomial blow-up in the normaliser");
        }
        r
    }
    pub fn pow(&self, e: u16) -> Poly {
        let mut r = Poly::constant(1);
        for _ in 0..e {
            r = r.mul(self);
        }
        r
    }
    /// (monic version, leading coefficient) w.r.t. the largest monomial in map order
    pub fn monic(&self) -> (Poly, u64) {
        let (_, lc) = self.t.iter().next_back().expect("monic of zero polynomial");
        let lc = *lc;
        (self.scale(invm(lc)), lc)
    }
    pub fn atoms(&self, out: &mut std::collections::BTreeSet<u32>) {
        for m in self.t.keys() {
            for (a, _) in m {
                out.insert(*a);
            }
        }
    }
}

/// N / prod den_atom^e
#[derive(Clone, Debug)]
pub struct Frac {
    pub num: Poly,
    pub den: Vec<(usize, u16)>, // sorted by denominator-atom index
}

#[derive(Default)]
pub struct Norm {
    pub dens: Vec<Poly>, // denominator atoms (monic polynomials assumed non-zero)
    den_index: HashMap<Vec<(Mono, u64)>, usize>,
    memo: HashMap<u32, Rc<Frac>>,
    pub arena_gen: u64,
}

fn den_lcm(a: &[(usize, u16)], b: &[(usize, u16)]) -> Vec<(usize, u16)> {
    let mut m: BTreeMap<usize, u16> = BTreeMap::new();
    for (i, e) in a.iter().chain(b.iter()) {
        let x = m.entry(*i).or_insert(0);
        *x = (*x).max(*e);
    }
    m.into_iter().collect()
}
fn den_mul(a: &[(usize, u16)], b: &[(usize, u16)]) -> Vec<(usize, u16)> {
    let mut m: BTreeMap<usize, u16> = BTreeMap::new();
    for (i, e) in a.iter().chain(b.iter()) {
        *m.entry(*i).or_insert(0) += *e;
    }
    m.into_iter().collect()
}

impl Norm {
    fn den_atom(&mut self, p: &Poly) -> usize {
        let key: Vec<(Mono, u64)> = p.t.iter().map(|(m, c)| (m.clone(), *c)).collect();
        if let Some(i) = self.den_index.get(&key) {
            return *i;
        }
        self.dens.push(p.clone());
        self.den_index.insert(key, self.dens.len() - 1);
        self.dens.len() - 1
    }
    /// product of den atoms raised to (l - d)
    fn lift(&self, l: &[(usize, u16)], d: &[(usize, u16)]) -> Poly {
        let dm: HashMap<usize, u16> = d.iter().copied().collect();
        let mut r = Poly::constant(1);
        for (i, e) in l {
            let have = dm.get(i).copied().unwrap_or(0);
            if *e > have {
                r = r.mul(&self.dens[*i].pow(*e - have));
            }
        }
        r
    }
    fn expand_den(&self, d: &[(usize, u16)]) -> Poly {
        self.lift(d, &[])
    }
    pub fn add(&self, a: &Frac, b: &Frac, negate_b: bool) -> Frac {
        let l = den_lcm(&a.den, &b.den);
        let na = a.num.mul(&self.lift(&l, &a.den));
        let nb = b.num.mul(&self.lift(&l, &b.den));
        Frac { num: if negate_b { na.sub(&nb) } else { na.add(&nb) }, den: l }
    }
    pub fn of(&mut self, op: Op) -> Rc<Frac> {
        match op {
            Op::C(v) => Rc::new(Frac { num: Poly::constant(v), den: vec![] }),
            Op::N(root) => {
                // iterative post-order
                let mut stack: Vec<(u32, bool)> = vec![(root, false)];
                while let Some((i, expanded)) = stack.pop() {
                    if self.memo.contains_key(&i) {
                        continue;
                    }
                    let node = node_of(i);
                    let kids: Vec<Op> = match &node {
                        Node::Var(_) | Node::Perm(..) => vec![],
                        Node::Add(a, b) | Node::Sub(a, b) | Node::Mul(a, b) => vec![*a, *b],
                        Node::Neg(a) | Node::Inv(a) => vec![*a],
                    };
                    if !expanded {
                        stack.push((i, true));
                        for k in kids {
                            if let Op::N(j) = k {
                                if !self.memo.contains_key(&j) {
                                    stack.push((j, false));
                                }
                            }
                        }
                        continue;
                    }
                    let get = |s: &Self, o: &Op| -> Rc<Frac> {
                        match o {
                            Op::C(v) => Rc::new(Frac { num: Poly::constant(*v), den: vec![] }),
                            Op::N(j) => s.memo[j].clone(),
                        }
                    };
                    let f = match &node {
                        Node::Var(_) | Node::Perm(..) => Frac { num: Poly::atom(i), den: vec![] },
                        Node::Add(a, b) => self.add(&get(self, a), &get(self, b), false),
                        Node::Sub(a, b) => self.add(&get(self, a), &get(self, b), true),
                        Node::Mul(a, b) => {
                            let (x, y) = (get(self, a), get(self, b));
                            Frac { num: x.num.mul(&y.num), den: den_mul(&x.den, &y.den) }
                        }
                        Node::Neg(a) => {
                            let x = get(self, a);
                            Frac { num: x.num.neg(), den: x.den.clone() }
                        }
                        Node::Inv(a) => {
                            let x = get(self, a);
                            assert!(!x.num.is_zero(), "inverse of a term that normalises to zero");
                            let (m, lc) = x.num.monic();
                            let numer = self.expand_den(&x.den).scale(invm(lc));
                            if m.as_constant().is_some() {
                                Frac { num: numer, den: vec![] }
                            } else {
                                let d = self.den_atom(&m);
                                Frac { num: numer, den: vec![(d, 1)] }
                            }
                        }
                    };
                    self.memo.insert(i, Rc::new(f));
                }
                self.memo[&root].clone()
            }
        }
    }
    /// numerator of (a - b): zero iff a == b whenever all denominators are non-zero
    pub fn diff(&mut self, a: Op, b: Op) -> Poly {
        let (fa, fb) = (self.of(a), self.of(b));
        self.add(&fa, &fb, true).num
    }
}

thread_local! {
    pub static NORM: std::cell::RefCell<Norm> = std::cell::RefCell::new(Norm::default());
}

/// The normaliser caches per arena node id: drop the cache when the arena is reset.
pub fn reset_norm() {
    NORM.with(|n| *n.borrow_mut() = Norm::default());
}
