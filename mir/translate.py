"""Engine M translator: rustc MIR text (`-Zunpretty=mir`) -> integer terms -> SMT-LIB2 + Python evaluator.

Pipeline
--------
  dump_mir()      scratch copy of /repo's current working tree, `cargo +nightly rustc -- -Zunpretty=mir`
  Program         parsed dump(s): functions, const items, impl-header index (for `<T as Trait>::f`)
  Session         one symbolic context: hash-consed integer/boolean terms with interval bounds,
                  input variables, the opaque-product table, SMT-LIB emission, exact Python evaluation
  Executor        symbolic execution of one entry function (callees inlined recursively). Symbolic
                  branches are executed arm by arm up to the branch's immediate post-dominator and the
                  arms' states are merged with `ite`; branches on concrete values (loop counters of
                  constant loops) are simply followed, which unrolls such loops.

Semantics: every MIR integer of type uN/iN is represented by its *mathematical* value (an SMT Int);
every wrapping operation is followed by an explicit reduction into the type's range.  The checked
forms (`AddWithOverflow` ...) return (wrapped value, "mathematical result out of range").  Each
`assert(..)` terminator and each reachable `unreachable_unchecked()` (the body of
`plonky2_util::assume`) is recorded as an Obligation (path condition -> condition).

Anything that is not modelled raises `Unsupported`; callers must turn that into `inconclusive`.
"""
import os
import re
import shutil
import subprocess
import sys
import time

sys.path.insert(0, os.path.dirname(os.path.dirname(os.path.abspath(__file__))))
from lib import common  # noqa: E402


class Unsupported(Exception):
    """A MIR construct / callee / asm template the translator does not model exactly."""


# =============================================================================================
# 1. obtaining the MIR
# =============================================================================================

COPY_ITEMS = ["Cargo.toml", "Cargo.lock", "field", "util", "maybe_rayon", "plonky2", "starky"]
CRATE_ARGS = {
    "plonky2_util": (["-p", "plonky2_util", "--lib"], "util/src/lib.rs"),
    "plonky2_field": (["-p", "plonky2_field", "--lib"], "field/src/lib.rs"),
    "plonky2": (["-p", "plonky2", "--lib", "--no-default-features", "--features", "std"],
                "plonky2/src/lib.rs"),
}
MIR_TARGET = os.path.join(common.CACHE, "mir-target")


def copy_repo(dst, repo=None):
    repo = repo or common.REPO
    for it in COPY_ITEMS:
        s = os.path.join(repo, it)
        d = os.path.join(dst, it)
        if os.path.isdir(s):
            shutil.copytree(s, d, ignore=shutil.ignore_patterns("target", ".git"))
        else:
            shutil.copy2(s, d)


def _prune_workspace_artifacts():
    """The scratch copy has a fresh path on every run, so cargo gives the workspace crates a new
    metadata hash each time; their artefacts can never be reused and would pile up in the persistent
    target dir.  Third-party dependencies (registry sources) are reused."""
    dbg = os.path.join(MIR_TARGET, "debug")
    pat = re.compile(r"^(lib)?(plonky2|starky)")
    for sub in ("deps", ".fingerprint", "incremental", "build"):
        d = os.path.join(dbg, sub)
        if not os.path.isdir(d):
            continue
        for n in os.listdir(d):
            if pat.match(n):
                p = os.path.join(d, n)
                if os.path.isdir(p):
                    shutil.rmtree(p, ignore_errors=True)
                else:
                    try:
                        os.remove(p)
                    except OSError:
                        pass
    for n in os.listdir(dbg) if os.path.isdir(dbg) else []:
        if pat.match(n):
            try:
                os.remove(os.path.join(dbg, n))
            except OSError:
                pass


def dump_mir(crates, src_root):
    """Run the MIR dump for each crate (in order) inside the scratch copy `src_root`.
    Returns ({crate: mir_text}, {crate: seconds})."""
    os.makedirs(MIR_TARGET, exist_ok=True)
    env = common.env_offline({"CARGO_TARGET_DIR": MIR_TARGET, "RUSTUP_TOOLCHAIN": "nightly",
                              "CARGO_INCREMENTAL": "0"})
    env.pop("RUSTFLAGS", None)
    texts, times = {}, {}
    for c in crates:
        args, librs = CRATE_ARGS[c]
        # MIR is printed only when the crate is really (re)compiled.
        os.utime(os.path.join(src_root, librs), None)
        t0 = time.time()
        p = subprocess.run(["cargo", "rustc", "--offline"] + args +
                           ["--", "-Zunpretty=mir", "-C", "overflow-checks=on", "-C", "debug-assertions=off"],
                           cwd=src_root, env=env, stdout=subprocess.PIPE, stderr=subprocess.PIPE)
        times[c] = time.time() - t0
        if p.returncode != 0:
            raise Unsupported("MIR dump of %s failed: %s" % (c, p.stderr.decode(errors="replace")[-2000:]))
        texts[c] = p.stdout.decode(errors="replace")
        if texts[c].count("\nfn ") < 3:
            raise Unsupported("MIR dump of %s is empty (crate not recompiled?)" % c)
        if _has_ambiguous_consts(texts[c]):
            # `#[unroll_for_loops]` expands to blocks `{ const r: usize = K; body }`: all these consts print
            # under one name.  A second, line-aligned dump with -Zverbose-internals prints `r#K` and is used
            # only to disambiguate those names (see Program.add_dump).
            os.utime(os.path.join(src_root, librs), None)
            t0 = time.time()
            p = subprocess.run(["cargo", "rustc", "--offline"] + args +
                               ["--", "-Zunpretty=mir", "-Zverbose-internals", "-C", "overflow-checks=on",
                                "-C", "debug-assertions=off"],
                               cwd=src_root, env=env, stdout=subprocess.PIPE, stderr=subprocess.PIPE)
            times[c + "_verbose"] = time.time() - t0
            if p.returncode == 0:
                texts[c + "#verbose"] = p.stdout.decode(errors="replace")
    _prune_workspace_artifacts()
    return texts, times


def _has_ambiguous_consts(text):
    seen = {}
    for ln in text.split("\n"):
        if ln.startswith("const "):
            h = _match_const_header(ln)
            if h:
                if h[0] in seen and seen[h[0]] != h[2]:
                    return True
                seen[h[0]] = h[2]
    return False


def load_program(crates, repo=None):
    """Scratch-copy the current tree, dump + parse MIR of `crates`. Returns (Program, timings)."""
    t0 = time.time()
    with common.Scratch("mir") as sc:
        copy_repo(sc, repo)
        t_copy = time.time() - t0
        texts, times = dump_mir(crates, sc)
        t1 = time.time()
        prog = Program()
        for c in crates:
            prog.add_dump(c, texts[c], sc, texts.get(c + "#verbose"))
        times["copy"] = t_copy
        times["parse"] = time.time() - t1
    return prog, times


# =============================================================================================
# 2. terms (hash-consed DAG over Int / Bool with interval bounds)
# =============================================================================================

class T(object):
    __slots__ = ("op", "args", "id", "lo", "hi", "sort")

    def __repr__(self):
        return "t%d:%s" % (self.id, self.op)


INT, BOOL = "Int", "Bool"


def _smt_int(n):
    return str(n) if n >= 0 else "(- %d)" % (-n)


class Session(object):
    """Term store + input variables + opaque products + emission/evaluation."""

    def __init__(self):
        self.nodes = []
        self.intern = {}
        self.vars = {}         # name -> term
        self.prods = {}        # (id_a, id_b) sorted -> prod var term
        self.prod_ops = {}     # prod var id -> (term_a, term_b)
        # If set (e.g. 2^33): products symbolic * constant with constant >= this bound are abstracted to opaque
        # variables too (sound; used for the 64-bit Poseidon tables, where a huge linear coefficient under a
        # div/mod 2^64 is what makes the solvers slow while the proof never needs the constant's value).
        self.opaque_const_from = None
        self.true = self._mk("bool", (True,), BOOL, None, None)
        self.false = self._mk("bool", (False,), BOOL, None, None)

    # ---- construction -------------------------------------------------------------------
    def _mk(self, op, args, sort, lo, hi):
        key = (op,) + tuple(a.id if isinstance(a, T) else a for a in args)
        t = self.intern.get(key)
        if t is None:
            t = T()
            t.op, t.args, t.sort, t.lo, t.hi = op, args, sort, lo, hi
            t.id = len(self.nodes)
            self.nodes.append(t)
            self.intern[key] = t
        return t

    def const(self, n):
        return self._mk("int", (int(n),), INT, int(n), int(n))

    def var(self, name, lo, hi):
        if name in self.vars:
            return self.vars[name]
        t = self._mk("var", (name,), INT, lo, hi)
        self.vars[name] = t
        return t

    def boolc(self, b):
        return self.true if b else self.false

    @staticmethod
    def is_const(t):
        return t.op == "int"

    def add(self, a, b):
        if a.op == "int" and b.op == "int":
            return self.const(a.args[0] + b.args[0])
        if a.op == "int" and a.args[0] == 0:
            return b
        if b.op == "int" and b.args[0] == 0:
            return a
        return self._mk("add", (a, b), INT, a.lo + b.lo, a.hi + b.hi)

    def sub(self, a, b):
        if a.op == "int" and b.op == "int":
            return self.const(a.args[0] - b.args[0])
        if b.op == "int" and b.args[0] == 0:
            return a
        if a is b:
            return self.const(0)
        return self._mk("sub", (a, b), INT, a.lo - b.hi, a.hi - b.lo)

    def mulc(self, c, a):
        c = int(c)
        if a.op == "int":
            return self.const(c * a.args[0])
        if c == 0:
            return self.const(0)
        if c == 1:
            return a
        if a.op == "mulc":
            return self.mulc(c * a.args[0], a.args[1])
        lo, hi = sorted((c * a.lo, c * a.hi))
        return self._mk("mulc", (c, a), INT, lo, hi)

    def neg(self, a):
        return self.mulc(-1, a)

    def div(self, a, c):
        """floor division by a positive constant (SMT-LIB `div` for positive divisors)."""
        c = int(c)
        assert c > 0
        if c == 1:
            return a
        if a.op == "int":
            return self.const(a.args[0] // c)
        if a.lo // c == a.hi // c:
            return self.const(a.lo // c)
        return self._mk("div", (a, c), INT, a.lo // c, a.hi // c)

    def mod(self, a, c):
        """a mod c, c a positive constant, result in [0, c)."""
        c = int(c)
        assert c > 0
        if a.op == "int":
            return self.const(a.args[0] % c)
        qlo, qhi = a.lo // c, a.hi // c
        if qlo == qhi:                       # one window: a - q*c
            return self.sub(a, self.const(qlo * c))
        if qhi == qlo + 1:                   # two windows: a single conditional subtraction
            thr = self.const(qhi * c)
            r = self.ite(self.lt(a, thr), self.sub(a, self.const(qlo * c)), self.sub(a, thr))
            # the node *is* a mod c: tightening its interval is sound for every user of the node
            r.lo, r.hi = max(r.lo, 0), min(r.hi, c - 1)
            return r
        if a.op == "mulc" and a.args[0] % c == 0:
            return self.const(0)
        return self._mk("mod", (a, c), INT, 0, c - 1)

    def ite(self, c, a, b):
        if c is self.true:
            return a
        if c is self.false:
            return b
        if a is b:
            return a
        if a.sort == BOOL:
            if a is self.true and b is self.false:
                return c
            if a is self.false and b is self.true:
                return self.not_(c)
            return self._mk("ite", (c, a, b), BOOL, None, None)
        return self._mk("ite", (c, a, b), INT, min(a.lo, b.lo), max(a.hi, b.hi))

    def lt(self, a, b):
        if a.hi < b.lo:
            return self.true
        if a.lo >= b.hi:
            return self.false
        return self._mk("lt", (a, b), BOOL, None, None)

    def le(self, a, b):
        if a.hi <= b.lo:
            return self.true
        if a.lo > b.hi:
            return self.false
        return self._mk("le", (a, b), BOOL, None, None)

    def gt(self, a, b):
        return self.lt(b, a)

    def ge(self, a, b):
        return self.le(b, a)

    def eq(self, a, b):
        if a.sort == BOOL:
            if a is b:
                return self.true
            if a.op == "bool":
                return b if a.args[0] else self.not_(b)
            if b.op == "bool":
                return a if b.args[0] else self.not_(a)
            return self._mk("eq", (a, b) if a.id < b.id else (b, a), BOOL, None, None)
        if a is b:
            return self.true
        if a.hi < b.lo or b.hi < a.lo:
            return self.false
        if a.op == "int" and b.op == "int":
            return self.boolc(a.args[0] == b.args[0])
        return self._mk("eq", (a, b) if a.id < b.id else (b, a), BOOL, None, None)

    def ne(self, a, b):
        return self.not_(self.eq(a, b))

    def not_(self, a):
        if a.op == "bool":
            return self.boolc(not a.args[0])
        if a.op == "not":
            return a.args[0]
        return self._mk("not", (a,), BOOL, None, None)

    def and_(self, *xs):
        out = []
        for x in xs:
            if x is self.false:
                return self.false
            if x is self.true or x in out:
                continue
            out.append(x)
        if not out:
            return self.true
        r = out[0]
        for x in out[1:]:
            r = self._mk("and", (r, x), BOOL, None, None)
        return r

    def or_(self, *xs):
        out = []
        for x in xs:
            if x is self.true:
                return self.true
            if x is self.false or x in out:
                continue
            out.append(x)
        if not out:
            return self.false
        r = out[0]
        for x in out[1:]:
            r = self._mk("or", (r, x), BOOL, None, None)
        return r

    def implies(self, a, b):
        return self.or_(self.not_(a), b)

    def b2i(self, b):
        return self.ite(b, self.const(1), self.const(0))

    def linear_form(self, t):
        """t == const + sum coef[atom]*atom, obtained by descending through add/sub/mulc only.
        Returns ({atom term: coef}, const)."""
        weights = {t.id: 1}
        coef, c0 = {}, 0
        import heapq
        heap = [-t.id]
        while heap:
            i = -heapq.heappop(heap)
            w = weights.pop(i, None)
            if w is None or w == 0:
                continue
            n = self.nodes[i]
            if n.op == "int":
                c0 += w * n.args[0]
            elif n.op in ("add", "sub", "mulc"):
                if n.op == "mulc":
                    kids = [(n.args[1], w * n.args[0])]
                else:
                    kids = [(n.args[0], w), (n.args[1], w if n.op == "add" else -w)]
                for (k, kw) in kids:
                    if k.id not in weights:
                        weights[k.id] = 0
                        heapq.heappush(heap, -k.id)
                    weights[k.id] += kw
            else:
                coef[n] = coef.get(n, 0) + w
        return coef, c0

    def congruent(self, a, b, m):
        """(a - b) mod m = 0.  The difference is first brought into linear form over its non-linear atoms
        and every coefficient is replaced by its centred residue mod m (e.g. 2^128 -> -2^32 for m = p):
        an equivalence-preserving rewrite that keeps the quotient the solver has to find small."""
        m = int(m)
        coef, c0 = self.linear_form(self.sub(a, b))
        d = self.const(c0 % m)
        for atom in sorted(coef, key=lambda x: x.id):
            c = coef[atom] % m
            if c > m // 2:
                c -= m
            d = self.add(d, self.mulc(c, atom))
        if d.op == "int":
            return self.boolc(d.args[0] % m == 0)
        return self._mk("eq", (self._mk("mod", (d, m), INT, 0, m - 1), self.const(0)), BOOL, None, None)

    # ---- nonlinear products -----------------------------------------------------------------
    def prod(self, a, b):
        """Product of two terms. Constant factors stay linear.  symbolic*symbolic is allowed only for
        non-negative factors below 2^64 (zero-extended u64 values); it becomes an *opaque* variable
        prod_k with the sound lemma 0 <= prod_k <= hi(a)*hi(b).  The same (unordered) pair of operand
        terms always yields the same variable, so code and specification share it."""
        thr = self.opaque_const_from
        for (c, x) in ((a, b), (b, a)):
            if c.op == "int":
                if thr is None or abs(c.args[0]) < thr or x.op == "int" or x.lo < 0 or x.hi >= 2 ** 64 or c.args[0] < 0:
                    return self.mulc(c.args[0], x)
                break       # large constant factor: abstract the product as well (see opaque_const_from)
        if a.lo < 0 or b.lo < 0 or a.hi >= 2 ** 64 or b.hi >= 2 ** 64:
            raise Unsupported("nonlinear product of operands outside [0,2^64): [%d,%d]*[%d,%d]"
                              % (a.lo, a.hi, b.lo, b.hi))
        key = (a.id, b.id) if a.id <= b.id else (b.id, a.id)
        p = self.prods.get(key)
        if p is None:
            p = self.var("prod_%d" % len(self.prods), a.lo * b.lo, a.hi * b.hi)
            self.prods[key] = p
            self.prod_ops[p.id] = (a, b)
        return p

    # ---- bitwise (via arithmetic) ---------------------------------------------------------------
    def bit(self, a, i):
        return self.mod(self.div(a, 2 ** i), 2)

    def bitop(self, kind, a, b, bits):
        """a,b are non-negative (< 2^bits). Common special cases are arithmetic; the general case is a
        bit-by-bit sum (correct but heavy)."""
        if a.op == "int" and b.op == "int":
            x, y = a.args[0], b.args[0]
            return self.const({"and": x & y, "or": x | y, "xor": x ^ y}[kind])
        if a.op == "int":
            a, b = b, a
        if b.op == "int":
            m = b.args[0]
            if kind == "and":
                if m == 0:
                    return self.const(0)
                low = (m & -m).bit_length() - 1          # trailing zeros
                width = (m >> low).bit_length()
                if (m >> low) == 2 ** width - 1:           # contiguous mask
                    return self.mulc(2 ** low, self.mod(self.div(a, 2 ** low), 2 ** width))
            if kind in ("or", "xor") and m == 0:
                return a
        out = self.const(0)
        for i in range(bits):
            x, y = self.bit(a, i), self.bit(b, i)
            if x.hi == 0 and y.hi == 0:
                continue
            x1, y1 = self.eq(x, self.const(1)), self.eq(y, self.const(1))
            if kind == "and":
                r = self.and_(x1, y1)
            elif kind == "or":
                r = self.or_(x1, y1)
            else:
                r = self.not_(self.eq(x1, y1))
            out = self.add(out, self.mulc(2 ** i, self.b2i(r)))
        return out

    # ---- emission -------------------------------------------------------------------------------
    def cone(self, roots):
        seen, stack = set(), [r for r in roots]
        while stack:
            t = stack.pop()
            if t.id in seen:
                continue
            seen.add(t.id)
            for a in t.args:
                if isinstance(a, T):
                    stack.append(a)
            if t.id in self.prod_ops:        # keep the operands' declarations with the product
                stack.extend(self.prod_ops[t.id])
        return sorted(seen)

    def _ref(self, t):
        if t.op == "int":
            return _smt_int(t.args[0])
        if t.op == "bool":
            return "true" if t.args[0] else "false"
        if t.op == "var":
            return t.args[0]
        return "t%d" % t.id

    def _expr(self, t):
        r = self._ref
        a = t.args
        if t.op in ("add", "sub"):
            return "(%s %s %s)" % ("+" if t.op == "add" else "-", r(a[0]), r(a[1]))
        if t.op == "mulc":
            return "(* %s %s)" % (_smt_int(a[0]), r(a[1]))
        if t.op in ("div", "mod"):
            return "(%s %s %s)" % (t.op, r(a[0]), _smt_int(a[1]))
        if t.op == "ite":
            return "(ite %s %s %s)" % (r(a[0]), r(a[1]), r(a[2]))
        if t.op == "lt":
            return "(< %s %s)" % (r(a[0]), r(a[1]))
        if t.op == "le":
            return "(<= %s %s)" % (r(a[0]), r(a[1]))
        if t.op == "eq":
            return "(= %s %s)" % (r(a[0]), r(a[1]))
        if t.op == "not":
            return "(not %s)" % r(a[0])
        if t.op in ("and", "or"):
            return "(%s %s %s)" % (t.op, r(a[0]), r(a[1]))
        raise AssertionError(t.op)

    def smt_prelude(self, roots):
        """Declarations (+ range hypotheses of every variable in the cone, + product lemmas) and
        definitions for all nodes reachable from `roots`."""
        ids = self.cone(roots)
        lines = ["(set-logic ALL)"]
        defs = []
        for i in ids:
            t = self.nodes[i]
            if t.op == "var":
                lines.append("(declare-const %s Int)" % t.args[0])
                lines.append("(assert (and (<= %s %s) (<= %s %s)))" % (_smt_int(t.lo), t.args[0], t.args[0], _smt_int(t.hi)))
            elif t.op not in ("int", "bool"):
                defs.append("(define-fun t%d () %s %s)" % (t.id, t.sort, self._expr(t)))
        return "\n".join(lines + defs) + "\n"

    def smt_query(self, hyps, goal_negated, get_model=True):
        """hyps AND goal_negated satisfiable?  (unsat = the goal holds under the hypotheses)"""
        roots = list(hyps) + [goal_negated]
        s = self.smt_prelude(roots)
        for h in hyps:
            s += "(assert %s)\n" % self._ref(h)
        s += "(assert %s)\n(check-sat)\n" % self._ref(goal_negated)
        if get_model:
            s += "(get-model)\n"
        return s

    # ---- exact evaluation ---------------------------------------------------------------------
    def evaluate(self, roots, env):
        """Evaluate terms under env {var name: int}. Opaque products are evaluated as the *real*
        product of their operand terms (so this is the exact semantics, not the abstraction)."""
        ids = self.cone(roots)
        val = {}
        for i in ids:
            t = self.nodes[i]
            a = t.args
            op = t.op
            if op == "int" or op == "bool":
                v = a[0]
            elif op == "var":
                if t.id in self.prod_ops:
                    x, y = self.prod_ops[t.id]
                    v = val[x.id] * val[y.id]
                else:
                    v = env[a[0]]
            elif op == "add":
                v = val[a[0].id] + val[a[1].id]
            elif op == "sub":
                v = val[a[0].id] - val[a[1].id]
            elif op == "mulc":
                v = a[0] * val[a[1].id]
            elif op == "div":
                v = val[a[0].id] // a[1]
            elif op == "mod":
                v = val[a[0].id] % a[1]
            elif op == "ite":
                v = val[a[1].id] if val[a[0].id] else val[a[2].id]
            elif op == "lt":
                v = val[a[0].id] < val[a[1].id]
            elif op == "le":
                v = val[a[0].id] <= val[a[1].id]
            elif op == "eq":
                v = val[a[0].id] == val[a[1].id]
            elif op == "not":
                v = not val[a[0].id]
            elif op == "and":
                v = val[a[0].id] and val[a[1].id]
            elif op == "or":
                v = val[a[0].id] or val[a[1].id]
            else:
                raise AssertionError(op)
            val[i] = v
        return [val[r.id] for r in roots]


# =============================================================================================
# 3. values
# =============================================================================================

class IntTy(object):
    __slots__ = ("bits", "signed", "name")

    def __init__(self, name):
        self.name = name
        self.signed = name[0] == "i"
        self.bits = 64 if name.endswith("size") else int(name[1:])

    @property
    def lo(self):
        return -(2 ** (self.bits - 1)) if self.signed else 0

    @property
    def hi(self):
        return 2 ** (self.bits - 1) - 1 if self.signed else 2 ** self.bits - 1


INT_TYPES = {n: IntTy(n) for n in ("u8", "u16", "u32", "u64", "u128", "usize",
                                   "i8", "i16", "i32", "i64", "i128", "isize")}


class IntV(object):
    __slots__ = ("t", "ty")

    def __init__(self, t, ty):
        self.t, self.ty = t, ty


class BoolV(object):
    __slots__ = ("t",)

    def __init__(self, t):
        self.t = t


class Agg(object):
    """tuple / array / struct (incl. the newtype GoldilocksField(u64)) / enum variant payload."""
    __slots__ = ("tag", "fields", "variant")

    def __init__(self, tag, fields, variant=None):
        self.tag, self.fields, self.variant = tag, list(fields), variant


class Ref(object):
    __slots__ = ("frame", "local", "path")

    def __init__(self, frame, local, path):
        self.frame, self.local, self.path = frame, local, tuple(path)


class Unit(object):
    pass


UNIT = Unit()
DEAD = "DEAD"      # marker: this path ends (unreachable / diverging)


# =============================================================================================
# 4. MIR parsing
# =============================================================================================

class Fn(object):
    def __init__(self, name, crate):
        self.name, self.crate = name, crate
        self.nargs = 0
        self.arg_types = []
        self.ret_type = ""
        self.local_types = {}
        self.blocks = {}       # id -> (statements[str], terminator str)
        self.is_const_item = False
        self.ctfe = False
        self._parsed = {}
        self._ipdom = None


def _split_top(s, sep=","):
    """Split at top-level separators (outside () [] {} <> and string literals)."""
    out, depth, cur, i, n = [], 0, [], 0, len(s)
    while i < n:
        ch = s[i]
        if ch == '"':
            j = i + 1
            while j < n and s[j] != '"':
                j += 2 if s[j] == "\\" else 1
            cur.append(s[i:j + 1])
            i = j + 1
            continue
        if ch in "([{<":
            depth += 1
        elif ch in ")]}":
            depth -= 1
        elif ch == ">" and not (i > 0 and s[i - 1] in "-="):
            depth -= 1
        if ch == sep and depth == 0:
            out.append("".join(cur).strip())
            cur = []
        else:
            cur.append(ch)
        i += 1
    last = "".join(cur).strip()
    if last or out:
        out.append(last)
    return out


def _match_paren_back(s, close_idx):
    """index of the bracket matching s[close_idx] (scanning backwards)."""
    pairs = {")": "(", "]": "["}
    opener = pairs[s[close_idx]]
    depth = 0
    for i in range(close_idx, -1, -1):
        if s[i] == s[close_idx]:
            depth += 1
        elif s[i] == opener:
            depth -= 1
            if depth == 0:
                return i
    raise Unsupported("unbalanced: " + s)


_HDR_FN = re.compile(r"^fn (.+?)\((_1: .*)?\) -> (.+) \{$")
_HDR_CONST = re.compile(r"^(?:const|static(?: mut)?) (.+?): (.+?) = (.*)$")
_IMPL_AT = re.compile(r"<impl at ([^:>]+):(\d+):(\d+): (\d+):(\d+)>")


def _match_const_header(ln):
    """`const NAME: TYPE = RHS` where NAME may contain `<impl at file:l:c: l:c>` -> (name, type, rhs)"""
    m = re.match(r"^(?:const|static(?: mut)?) ", ln)
    if not m:
        return None
    rest = ln[m.end():]
    depth = 0
    for i, ch in enumerate(rest):
        if ch in "<([{":
            depth += 1
        elif ch in ")]}" or (ch == ">" and rest[i - 1] not in "-="):
            depth -= 1
        elif depth == 0 and rest.startswith(": ", i):
            name = rest[:i]
            parts = rest[i + 2:].split(" = ", 1)
            if len(parts) != 2:
                return None
            return name, parts[0], parts[1]
    return None


def _last_seg(path):
    """`a::b::Name<x::Y>` -> `Name<Y>` (module paths stripped everywhere)."""
    path = path.strip()
    return re.sub(r"(?:[A-Za-z_][A-Za-z0-9_]*::)+(?=[A-Za-z_<\[(&])", "", path)


class Program(object):
    def __init__(self):
        self.fns = {}            # exact printed name -> Fn   (runtime MIR preferred over CTFE)
        self.consts = {}         # exact printed name -> Fn (body) or literal string
        self.impl_items = {}     # (SelfTy, Trait or None, item) -> printed name
        self.default_items = {}  # (Trait, item) -> printed name
        self.blanket_items = {}  # (Trait, item) -> (printed name, type parameter) for `impl<F> Trait for F`
        self.ambiguous = set()   # const names defined more than once with different values
        self.impl_headers = {}   # "file:line" -> (trait, selfty)
        self.sources = {}        # relative file -> text (only files that define impls we index)

    # -- impl header lookup (`<impl at file:line:col: ..>` -> `impl Trait for Type`) -----------------
    def _impl_header(self, root, rel, line):
        key = "%s:%d" % (rel, line)
        if key in self.impl_headers:
            return self.impl_headers[key]
        if rel not in self.sources:
            try:
                with open(os.path.join(root, rel)) as f:
                    self.sources[rel] = f.read().split("\n")
            except OSError:
                self.sources[rel] = None
        src = self.sources[rel]
        res = None
        if src and line - 1 < len(src):
            text = " ".join(src[line - 1:line + 8])
            m = re.match(r"\s*(?:unsafe\s+)?impl\b\s*", text)
            if m:
                rest = text[m.end():]
                params = []
                if rest.startswith("<"):                      # generic parameter list (balanced <>)
                    depth = 0
                    for k, ch in enumerate(rest):
                        if ch == "<":
                            depth += 1
                        elif ch == ">" and rest[k - 1] not in "-=":
                            depth -= 1
                            if depth == 0:
                                break
                    for g in _split_top(rest[1:k]):
                        g = g.strip()
                        if g and not g.startswith("'") and not g.startswith("const "):
                            params.append(re.split(r"[:\s=]", g, 1)[0])
                    rest = rest[k + 1:]
                body = rest.split("{", 1)[0]
                body = re.split(r"\bwhere\b", body, 1)[0].strip()
                if " for " in body:
                    tr, ty = body.split(" for ", 1)
                else:
                    tr, ty = None, body
                res = (_last_seg(tr.strip()) if tr else None, _last_seg(ty.strip()), params)
        self.impl_headers[key] = res
        return res

    @staticmethod
    def _disambiguate(line, vline):
        """Insert the `#K` disambiguators that the verbose twin line shows after `const <path>`."""
        if "#" not in vline:
            return line
        parts, vparts = line.split("const "), vline.split("const ")
        j = 1
        out = [parts[0]]
        for i in range(1, len(parts)):
            pt = parts[i]
            done = False
            for jj in range(j, len(vparts)):
                vp = vparts[jj]
                L = 0
                n = min(len(pt), len(vp))
                while L < n and pt[L] == vp[L]:
                    L += 1
                m = re.match(r"#(\d+)", vp[L:])
                if m and L > 0 and re.search(r"::\w+$", pt[:L]) and not pt[L:L + 1].isalnum() and pt[L:L + 1] != "_":
                    out.append(pt[:L] + "#" + m.group(1) + pt[L:])
                    j = jj + 1
                    done = True
                    break
                if L == len(pt) == len(vp) or (L > 0 and jj == j and not m and pt[:L].strip()):
                    # same operand printed identically (or diverging for another reason): consume it
                    if L >= min(len(pt), len(vp)) or not re.search(r"::\w+$", pt[:L]):
                        j = jj + 1
                        break
            if not done:
                out.append(pt)
        return "const ".join(out)

    def add_dump(self, crate, text, src_root, vtext=None):
        lines = text.split("\n")
        if vtext is not None:
            vlines = vtext.split("\n")
            if len(vlines) == len(lines):
                lines = [self._disambiguate(a, b) if ("const " in a and "#" in b) else a
                         for a, b in zip(lines, vlines)]
            # else: not line-aligned -> ambiguous names stay ambiguous -> Unsupported when used
        i, n = 0, len(lines)
        ctfe_next = False
        while i < n:
            ln = lines[i]
            if ln.startswith("// MIR FOR CTFE"):
                ctfe_next = True
                i += 1
                continue
            m = _HDR_FN.match(ln) if ln.startswith("fn ") else None
            mc = _match_const_header(ln) if (ln.startswith("const ") or ln.startswith("static ")) else None
            if m:
                fn = Fn(m.group(1), crate)
                fn.ctfe = ctfe_next
                ctfe_next = False
                args = m.group(2) or ""
                fn.arg_types = [a.split(": ", 1)[1] for a in _split_top(args)] if args else []
                fn.nargs = len(fn.arg_types)
                fn.ret_type = m.group(3)
                i = self._parse_body(fn, lines, i + 1)
                old = self.fns.get(fn.name)
                if old is None or (old.ctfe and not fn.ctfe):
                    self.fns[fn.name] = fn
                    self._index(fn.name, src_root, is_fn=True)
                continue
            if mc:
                name, ty, rhs = mc
                ctfe_next = False
                if rhs.rstrip() == "{":
                    fn = Fn(name, crate)
                    fn.is_const_item = True
                    fn.ret_type = ty
                    i = self._parse_body(fn, lines, i + 1)
                    self.consts.setdefault(name, fn)
                else:
                    val = rhs.rstrip().rstrip(";")
                    if name in self.consts and self.consts[name] != val:
                        self.ambiguous.add(name)
                    self.consts.setdefault(name, val)
                    i += 1
                self._index(name, src_root, is_fn=False)
                continue
            i += 1

    def _index(self, name, src_root, is_fn):
        m = _IMPL_AT.search(name)
        if m:
            # only index items directly inside the impl (`...<impl at ..>::item`)
            rest = name[m.end():]
            if rest.startswith("::") and "::" not in rest[2:] and "{" not in rest:
                hdr = self._impl_header(src_root, m.group(1), int(m.group(2)))
                if hdr:
                    tr, ty, params = hdr
                    if ty in params:
                        if tr:
                            self.blanket_items.setdefault((re.sub(r"<.*$", "", tr), rest[2:]), (name, ty))
                    else:
                        self.impl_items.setdefault((ty, tr, rest[2:]), name)
            return
        # default trait methods / trait consts are printed as `path::Trait::item`
        parts = name.split("::")
        if len(parts) >= 2 and "<" not in name and "{" not in name and parts[-2][:1].isupper():
            self.default_items.setdefault((parts[-2], parts[-1]), name)

    def _parse_body(self, fn, lines, i):
        n = len(lines)
        cur = None
        stmts = []
        pend = None
        while i < n:
            ln = lines[i]
            if ln == "}":
                return i + 1
            s = ln.strip()
            if pend is not None:                      # continuation of a multi-line statement (asm!)
                pend += "\n" + ln
                if s.endswith(";"):
                    stmts.append(pend.strip())
                    pend = None
                i += 1
                continue
            if cur is None:
                m = re.match(r"^    let (?:mut )?_(\d+): (.*);$", ln)
                if m:
                    fn.local_types[int(m.group(1))] = m.group(2)
                m = re.match(r"^    bb(\d+)(?: \(cleanup\))?: \{$", ln)
                if m:
                    cur = int(m.group(1))
                    stmts = []
            else:
                if ln == "    }":
                    fn.blocks[cur] = (stmts[:-1], stmts[-1] if stmts else "unreachable;")
                    cur = None
                elif s:
                    if s.endswith(";"):
                        stmts.append(s)
                    else:
                        pend = s
            i += 1
        raise Unsupported("unterminated body of " + fn.name)

    # -- name resolution ---------------------------------------------------------------------------
    @staticmethod
    def apply_subst(ty, sub):
        """replace type parameters (`Self`, `F`, ..) in a printed type by their bindings"""
        if not sub:
            return ty
        return re.sub(r"\b[A-Za-z_][A-Za-z0-9_]*\b", lambda m: sub.get(m.group(0), m.group(0)), ty)

    def resolve_fn(self, callee, sub=None):
        """callee as printed at the call site -> (Fn, substitution for its body) or (None, None).
        `sub` binds the type parameters of the *calling* body (`Self`, blanket-impl params)."""
        name = callee
        if name in self.fns:
            return self.fns[name], sub
        m = re.match(r"^<(.+) as (.+?)>::([A-Za-z0-9_]+)(?:::<.*>)?$", name)
        if m:
            ty, tr, item = _last_seg(m.group(1)), _last_seg(m.group(2)), m.group(3)
            ty = self.apply_subst(ty, sub)
            if ty == "Self":
                return None, None
            tr_base = re.sub(r"<.*$", "", tr)
            for key in ((ty, tr, item), (ty, tr_base, item)):
                if key in self.impl_items:
                    return self.fns.get(self.impl_items[key]), {"Self": ty}
            # generic-trait impls such as `impl Mul for QuadraticExtension<GoldilocksField>` are keyed
            # with their full self type; try trait names that carry generics in the header
            for (kty, ktr, kitem), nm in self.impl_items.items():
                if kitem == item and kty == ty and ktr and re.sub(r"<.*$", "", ktr) == tr_base:
                    return self.fns.get(nm), {"Self": ty}
            bl = self.blanket_items.get((tr_base, item))
            if bl and bl[0] in self.fns:       # `impl<F: ..> Trait for F`
                return self.fns[bl[0]], {"Self": ty, bl[1]: ty}
            dn = self.default_items.get((tr_base, item))
            if dn and dn in self.fns:
                return self.fns[dn], {"Self": ty}
            return None, None
        # generic free function called with a turbofish: `path::name::<T>`; bind its single type parameter
        m = re.match(r"^([A-Za-z0-9_:]+?)::<(.+)>$", name)
        if m:
            base = m.group(1)
            fn = self.fns.get(base) or self.fns.get(base.split("::")[-1])
            targs = [self.apply_subst(_last_seg(a), sub) for a in _split_top(m.group(2))]
            if fn is not None:
                params = self.type_params(fn)
                if len(params) == len(targs) and all(not re.fullmatch(r"[A-Z]\w?|Self", a) for a in targs):
                    return fn, dict(zip(params, targs))
            return None, None
        # crate-qualified free function from another crate's dump: try the last segment
        last = name.split("::")[-1]
        if "<" not in name and last in self.fns:
            return self.fns[last], sub
        return None, None

    def type_params(self, fn):
        """Type parameters of a generic free function, recovered from its MIR text: short capitalised
        names used as `<F as Trait>` or as bare argument/return/local types (heuristic; a wrong guess
        makes a callee unresolvable -> Unsupported, never a wrong model)."""
        found = []
        texts = list(fn.arg_types) + [fn.ret_type] + list(fn.local_types.values())
        for (st, t) in fn.blocks.values():
            texts.append(t)
            texts.extend(st)
        for tx in texts:
            for mm in re.finditer(r"(?<![\w:])([A-Z][A-Z0-9]?)(?![\w:(<])", tx):
                if mm.group(1) not in found:
                    found.append(mm.group(1))
        return found

    def resolve_const(self, name, sub=None):
        c, s2 = self._resolve_const(name, sub)
        if c is not None and self._const_key in self.ambiguous:
            raise Unsupported("constant name %s is defined several times in the dump and could not be "
                              "disambiguated" % name)
        return c, s2

    def _resolve_const(self, name, sub=None):
        self._const_key = name
        if name in self.consts:
            return self.consts[name], sub
        # const item nested in a function: `path::<impl Trait for Type>::method::NAME` / `path::Trait::method::NAME`
        m = re.match(r"^.*<impl (.+) for (.+)>::(\w+)::(\w+(?:#\d+)?)$", name)
        if m:
            key = (_last_seg(m.group(2)), _last_seg(m.group(1)), m.group(3))
            if key in self.impl_items:
                k2 = self.impl_items[key] + "::" + m.group(4)
                if k2 in self.consts:
                    self._const_key = k2
                    return self.consts[k2], sub
        if "<" not in name:
            segs = name.split("::")
            for k in range(1, len(segs)):
                k2 = "::".join(segs[k:])
                if k2 in self.consts:
                    self._const_key = k2
                    return self.consts[k2], sub
        m = re.match(r"^<(.+) as (.+?)>::([A-Za-z0-9_]+)$", name)
        if m:
            ty, tr, item = _last_seg(m.group(1)), _last_seg(m.group(2)), m.group(3)
            ty = self.apply_subst(ty, sub)
            if ty == "Self":
                return None, None
            tr_base = re.sub(r"<.*$", "", tr)
            for (kty, ktr, kitem), nm in self.impl_items.items():
                if kitem == item and kty == ty and ktr and ktr == tr and nm in self.consts:
                    return self.consts[nm], {"Self": ty}
            for (kty, ktr, kitem), nm in self.impl_items.items():
                if kitem == item and kty == ty and ktr and re.sub(r"<.*$", "", ktr) == tr_base and nm in self.consts:
                    return self.consts[nm], {"Self": ty}
            dn = self.default_items.get((tr_base, item))
            if dn and dn in self.consts:
                return self.consts[dn], {"Self": ty}
            return None, None
        m = re.match(r"^(.+)::([A-Za-z0-9_]+)$", name)
        if m:                                     # `Type::CONST` inherent / path from another crate
            ty, item = self.apply_subst(_last_seg(m.group(1)), sub), m.group(2)
            for (kty, ktr, kitem), nm in self.impl_items.items():
                if kitem == item and kty == ty and nm in self.consts:
                    return self.consts[nm], {"Self": ty}
            cands = [k for k in self.consts if k.endswith("::" + m.group(1).split("::")[-1] + "::" + item)
                     or k == m.group(1).split("::")[-1] + "::" + item]
            if len(cands) == 1:
                return self.consts[cands[0]], sub
        return None, None

    def find_impl_fn(self, ty, trait, item):
        """Entry-point lookup: the method `item` of `impl trait for ty` (trait None = inherent)."""
        nm = self.impl_items.get((ty, trait, item))
        if nm is None:
            for (kty, ktr, kitem), n2 in self.impl_items.items():
                if kitem == item and kty == ty and ktr and trait and re.sub(r"<.*$", "", ktr) == trait:
                    nm = n2
                    break
        sub = {"Self": ty}
        if nm is None and trait and (trait, item) in self.blanket_items:
            nm, param = self.blanket_items[(trait, item)]
            sub[param] = ty
        if nm is None and trait and (trait, item) in self.default_items:
            nm = self.default_items[(trait, item)]
        if nm is None or nm not in self.fns:
            raise Unsupported("function not found in MIR dump: <%s as %s>::%s" % (ty, trait, item))
        return self.fns[nm], sub

    def find_fn(self, name):
        if name not in self.fns:
            raise Unsupported("function not found in MIR dump: " + name)
        return self.fns[name]


# ---- places / operands / rvalues --------------------------------------------------------------

def parse_place(s):
    """-> (local:int, [proj...]) with proj in ('deref',) ('field',i) ('idx',i) ('idxl',local)
    ('down',variant)."""
    s = s.strip()
    if re.fullmatch(r"_\d+", s):
        return int(s[1:]), []
    if s.endswith("]"):
        i = _match_paren_back(s, len(s) - 1)
        base, inner = s[:i], s[i + 1:-1]
        if not base:
            raise Unsupported("not a place: " + s)
        loc, proj = parse_place(base)
        m = re.fullmatch(r"(\d+) of (\d+)", inner)
        if m:
            return loc, proj + [("idx", int(m.group(1)))]
        m = re.fullmatch(r"_(\d+)", inner)
        if m:
            return loc, proj + [("idxl", int(m.group(1)))]
        raise Unsupported("index projection: " + s)
    if s.startswith("(") and s.endswith(")") and _match_paren_back(s, len(s) - 1) == 0:
        inner = s[1:-1].strip()
        if inner.startswith("*"):
            loc, proj = parse_place(inner[1:])
            return loc, proj + [("deref",)]
        # PLACE.N: TYPE   or   PLACE as Variant
        depth = 0
        for k, ch in enumerate(inner):
            if ch in "([":
                depth += 1
            elif ch in ")]":
                depth -= 1
            elif depth == 0 and ch == ".":
                m = re.match(r"\.(\d+): ", inner[k:])
                if m:
                    loc, proj = parse_place(inner[:k])
                    return loc, proj + [("field", int(m.group(1)))]
            elif depth == 0 and inner.startswith(" as ", k):
                loc, proj = parse_place(inner[:k])
                return loc, proj + [("down", inner[k + 4:].strip())]
        raise Unsupported("place: " + s)
    raise Unsupported("place: " + s)


_LIT = re.compile(r"^(-?\d+)_(u8|u16|u32|u64|u128|usize|i8|i16|i32|i64|i128|isize)$")
BINOPS = {"Add", "Sub", "Mul", "AddWithOverflow", "SubWithOverflow", "MulWithOverflow", "AddUnchecked",
          "SubUnchecked", "MulUnchecked", "BitAnd", "BitOr", "BitXor", "Shl", "Shr", "ShlUnchecked",
          "ShrUnchecked", "Lt", "Le", "Gt", "Ge", "Eq", "Ne", "Div", "Rem"}
UNOPS = {"Not", "Neg"}


def parse_operand(s):
    s = s.strip()
    if s.startswith("copy ") or s.startswith("move "):
        return ("place", parse_place(s[5:]))
    if s.startswith("const "):
        c = s[6:].strip()
        m = _LIT.match(c)
        if m:
            return ("lit", int(m.group(1)), m.group(2))
        if c in ("true", "false"):
            return ("bool", c == "true")
        if c == "()":
            return ("unit",)
        return ("named", c)
    raise Unsupported("operand: " + s)


def parse_rvalue(s):
    s = s.strip()
    if s.startswith("&"):
        r = s[1:]
        for pre in ("raw const ", "raw mut ", "mut ", "fake shallow ", "fake "):
            if r.startswith(pre):
                r = r[len(pre):]
                break
        return ("ref", parse_place(r))
    m = re.match(r"^([A-Za-z_][A-Za-z0-9_]*)\((.*)\)$", s, re.S)
    if m and (m.group(1) in BINOPS or m.group(1) in UNOPS):
        ops = [parse_operand(x) for x in _split_top(m.group(2))]
        return ("op", m.group(1), ops)
    if m and m.group(1) == "discriminant":
        return ("discr", parse_place(m.group(2)))
    if m and m.group(1) in ("Len", "PtrMetadata", "CopyForDeref", "ShallowInitBox", "UbChecks", "SizeOf", "AlignOf"):
        if m.group(1) == "CopyForDeref":
            return ("use", ("place", parse_place(m.group(2))))
        raise Unsupported("rvalue " + m.group(1))
    if s.startswith("(") and s.endswith(")") and _match_paren_back(s, len(s) - 1) == 0 \
            and not s.startswith("(*") and not re.match(r"^\(.*\.\d+: ", s):
        inner = s[1:-1]
        parts = [p for p in _split_top(inner) if p != ""]
        return ("agg", "tuple", [parse_operand(p) for p in parts], None)
    if s.startswith("[") and s.endswith("]"):
        inner = s[1:-1]
        semi = _split_top(inner, ";")
        if len(semi) == 2:
            return ("repeat", parse_operand(semi[0]), semi[1].strip())
        return ("agg", "array", [parse_operand(p) for p in _split_top(inner) if p != ""], None)
    if s.startswith("copy ") or s.startswith("move ") or s.startswith("const "):
        m = re.match(r"^(.*) as (.*) \(([A-Za-z]+(?:\([^)]*\))?)\)$", s, re.S)
        if m and " as " in s:
            return ("cast", parse_operand(m.group(1)), m.group(2).strip(), m.group(3))
        return ("use", parse_operand(s))
    # ADT constructors: `Path::Name(ops)`, `Path::Name::<T>(ops)`, `Path::Name { f: op, .. }`
    m = re.match(r"^([A-Za-z_<][^()]*?)\((.*)\)$", s, re.S)
    if m and not m.group(1).rstrip().endswith("!"):
        ops = [parse_operand(x) for x in _split_top(m.group(2)) if x != ""]
        return ("agg", "adt", ops, m.group(1).strip())
    m = re.match(r"^([A-Za-z_<][^{}]*?)\s*\{(.*)\}$", s, re.S)
    if m:
        fields = []
        for f in _split_top(m.group(2)):
            if f:
                fields.append(parse_operand(f.split(": ", 1)[1]))
        return ("agg", "adt", fields, m.group(1).strip())
    raise Unsupported("rvalue: " + s)


def parse_terminator(s):
    s = s.strip()
    if s == "return;":
        return ("return",)
    if s in ("unreachable;", "resume;", "abort;"):
        return ("unreachable",)
    m = re.match(r"^goto -> bb(\d+);$", s)
    if m:
        return ("goto", int(m.group(1)))
    m = re.match(r"^switchInt\((.*)\) -> \[(.*)\];$", s)
    if m:
        arms = []
        other = None
        for a in m.group(2).split(", "):
            k, v = a.split(": ")
            if k == "otherwise":
                other = int(v[2:])
            else:
                arms.append((int(k), int(v[2:])))
        return ("switch", parse_operand(m.group(1)), arms, other)
    m = re.match(r"^assert\((.*)\) -> \[success: bb(\d+), unwind[^\]]*\];$", s, re.S)
    if m:
        parts = _split_top(m.group(1))
        cond = parts[0]
        neg = cond.startswith("!")
        if neg:
            cond = cond[1:]
        msg = parts[1] if len(parts) > 1 else ""
        return ("assert", parse_operand(cond), neg, msg, int(m.group(2)))
    m = re.match(r"^asm!\((.*)\) -> \[return: bb(\d+), unwind[^\]]*\];$", s, re.S)
    if m:
        return ("asm", m.group(1), int(m.group(2)))
    m = re.match(r"^drop\((.*)\) -> \[return: bb(\d+), unwind[^\]]*\];$", s)
    if m:
        return ("goto", int(m.group(2)))
    m = re.match(r"^(.+?) = (.+)\((.*)\) -> (?:\[return: bb(\d+), unwind[^\]]*\]|unwind[^;]*);$", s, re.S)
    if m:
        dest, callee, args, ret = m.group(1), m.group(2), m.group(3), m.group(4)
        # the callee may itself contain parentheses only inside <...>; re-split conservatively
        full = s[len(dest) + 3:]
        full = full[:full.rindex(" -> ")]
        k = _match_paren_back(full, len(full) - 1)
        callee, args = full[:k], full[k + 1:-1]
        return ("call", parse_place(dest), callee.strip(),
                [parse_operand(a) for a in _split_top(args) if a != ""], int(ret) if ret else None)
    raise Unsupported("terminator: " + s[:200])


# =============================================================================================
# 5. symbolic execution
# =============================================================================================

class Obligation(object):
    """pc -> cond must hold (kind: 'overflow' | 'assume' | 'bounds' | 'unreachable' | 'precond')."""
    __slots__ = ("kind", "pc", "cond", "msg", "where")

    def __init__(self, kind, pc, cond, msg, where):
        self.kind, self.pc, self.cond, self.msg, self.where = kind, pc, cond, msg, where


ASM_ADD_SBB = '"add {0}, {1}\nsbb {1:e}, {1:e}"'
ASM_MODEL_NOTE = ("inline asm `add {0},{1}; sbb {1:e},{1:e}` modelled per Intel SDM: out0=(x+y) mod 2^64, "
                  "out1=0xffffffff if carry else 0")
EXIT = -1


class Executor(object):
    def __init__(self, prog, sess, call_hook=None, step_limit=200000):
        self.prog = prog
        self.S = sess
        self.obls = []
        self.frames = 0
        self.steps = 0
        self.step_limit = step_limit
        self.call_hook = call_hook      # f(executor, fn, argvals, pc, where) -> None | replacement value
        self.const_cache = {}
        self.inlined = set()
        self.notes = set()
        self.active_sym_switch = set()

    # -- helpers ---------------------------------------------------------------------------------
    def wrap(self, t, ty):
        S = self.S
        if t.lo >= ty.lo and t.hi <= ty.hi:
            return t
        m = 2 ** ty.bits
        if not ty.signed:
            return S.mod(t, m)
        h = 2 ** (ty.bits - 1)
        return S.sub(S.mod(S.add(t, S.const(h)), m), S.const(h))

    def out_of_range(self, t, ty):
        S = self.S
        return S.or_(S.lt(t, S.const(ty.lo)), S.lt(S.const(ty.hi), t))

    def input_int(self, name, tyname, lo=None, hi=None):
        ty = INT_TYPES[tyname]
        return IntV(self.S.var(name, ty.lo if lo is None else lo, ty.hi if hi is None else hi), ty)

    def lit(self, n, tyname):
        return IntV(self.S.const(n), INT_TYPES[tyname])

    def merge(self, c, a, b):
        """value-wise ite(c, a, b)"""
        if a is b:
            return a
        if isinstance(a, IntV) and isinstance(b, IntV):
            return IntV(self.S.ite(c, a.t, b.t), a.ty)
        if isinstance(a, BoolV) and isinstance(b, BoolV):
            return BoolV(self.S.ite(c, a.t, b.t))
        if isinstance(a, Agg) and isinstance(b, Agg) and len(a.fields) == len(b.fields) and a.variant == b.variant:
            return Agg(a.tag, [self.merge(c, x, y) for x, y in zip(a.fields, b.fields)], a.variant)
        if isinstance(a, Ref) and isinstance(b, Ref) and (a.frame, a.local, a.path) == (b.frame, b.local, b.path):
            return a
        if isinstance(a, Unit) and isinstance(b, Unit):
            return a
        if a is None:          # uninitialised on one side: value is dead after the join
            return b
        if b is None:
            return a
        raise Unsupported("cannot merge values of different shape at a join point")

    def merge_states(self, c, sa, sb):
        if sa is DEAD:
            return sb
        if sb is DEAD:
            return sa
        out = {}
        for k in set(sa) | set(sb):
            va, vb = sa.get(k), sb.get(k)
            try:
                out[k] = self.merge(c, va, vb)
            except Unsupported:
                out[k] = None      # differing shapes: treat as dead temp; reading it later fails loudly
        return out

    # -- places ----------------------------------------------------------------------------------
    def _index_value(self, state, frame, local):
        v = state.get((frame, local))
        if not isinstance(v, IntV):
            raise Unsupported("index local is not an integer")
        return v

    def resolve(self, state, frame, place):
        """place -> canonical (frame, local, path) following derefs; path items are ints
        (field / constant index) or ('sym', IntV)"""
        local, projs = place
        cur = (frame, local, [])
        for p in projs:
            if p[0] == "deref":
                v = self.read_loc(state, cur)
                if not isinstance(v, Ref):
                    raise Unsupported("deref of a non-reference")
                cur = (v.frame, v.local, list(v.path))
            elif p[0] in ("field", "idx"):
                cur = (cur[0], cur[1], cur[2] + [p[1]])
            elif p[0] == "idxl":
                iv = self._index_value(state, frame, p[1])
                if iv.t.op == "int":
                    cur = (cur[0], cur[1], cur[2] + [iv.t.args[0]])
                else:
                    cur = (cur[0], cur[1], cur[2] + [("sym", iv)])
            elif p[0] == "down":
                cur = (cur[0], cur[1], cur[2] + [("down", p[1])])
        return cur

    def read_loc(self, state, loc):
        v = state.get((loc[0], loc[1]))
        for p in loc[2]:
            if v is None:
                raise Unsupported("read of uninitialised / unmergeable local _%d" % loc[1])
            if isinstance(p, tuple) and p[0] == "down":
                if not isinstance(v, Agg):
                    raise Unsupported("downcast of non-enum")
                continue
            if not isinstance(v, Agg):
                raise Unsupported("projection into a non-aggregate value")
            if isinstance(p, tuple) and p[0] == "sym":
                idx = p[1]
                n = len(v.fields)
                r = v.fields[n - 1]
                for i in range(n - 2, -1, -1):
                    r = self.merge(self.S.eq(idx.t, self.S.const(i)), v.fields[i], r)
                v = r
            else:
                if p >= len(v.fields):
                    raise Unsupported("constant index out of range")
                v = v.fields[p]
        if v is None:
            raise Unsupported("read of uninitialised / unmergeable local _%d" % loc[1])
        return v

    def write_loc(self, state, loc, val):
        def upd(v, path):
            if not path:
                return val
            p = path[0]
            if isinstance(p, tuple) and p[0] == "down":
                return upd(v, path[1:])
            if isinstance(p, tuple):
                raise Unsupported("write through a symbolic index")
            if not isinstance(v, Agg):
                raise Unsupported("projection write into a non-aggregate (uninitialised?) value")
            f = list(v.fields)
            f[p] = upd(f[p], path[1:])
            return Agg(v.tag, f, v.variant)
        state[(loc[0], loc[1])] = upd(state.get((loc[0], loc[1])), loc[2])

    # -- constants -------------------------------------------------------------------------------
    def named_const(self, name, self_ty):
        m = re.match(r"^core::num::<impl (\w+)>::(MAX|MIN|BITS)$", name) or re.match(r"^(\w+)::(MAX|MIN|BITS)$", name)
        if m and m.group(1) in INT_TYPES:
            ty = INT_TYPES[m.group(1)]
            if m.group(2) == "BITS":
                return self.lit(ty.bits, "u32")
            return IntV(self.S.const(ty.hi if m.group(2) == "MAX" else ty.lo), ty)
        c, sty = self.prog.resolve_const(name, self_ty)
        if c is None:
            raise Unsupported("unknown constant: " + name)
        key = (id(c), tuple(sorted((sty or {}).items())))
        if key in self.const_cache:
            return self.const_cache[key]
        if isinstance(c, str):
            rv = parse_rvalue(c)
            v = self.eval_rvalue(rv, {}, -1, sty)
        else:
            st = {}
            v, _ = self.call_fn(c, [], st, self.S.true, sty)
        self.const_cache[key] = v
        return v

    # -- operands / rvalues ------------------------------------------------------------------------
    def eval_operand(self, op, state, frame, self_ty):
        k = op[0]
        if k == "place":
            return self.read_loc(state, self.resolve(state, frame, op[1]))
        if k == "lit":
            return self.lit(op[1], op[2])
        if k == "bool":
            return BoolV(self.S.boolc(op[1]))
        if k == "unit":
            return UNIT
        if k == "named":
            return self.named_const(op[1], self_ty)
        raise Unsupported("operand kind " + k)

    def cast_int(self, v, tyname):
        if tyname not in INT_TYPES:
            raise Unsupported("cast to " + tyname)
        ty = INT_TYPES[tyname]
        if isinstance(v, BoolV):
            return IntV(self.S.b2i(v.t), ty)
        if not isinstance(v, IntV):
            raise Unsupported("cast of non-integer")
        return IntV(self.wrap(v.t, ty), ty)

    def binop(self, name, a, b):
        S = self.S
        if isinstance(a, BoolV) and isinstance(b, BoolV):
            if name == "BitAnd":
                return BoolV(S.and_(a.t, b.t))
            if name == "BitOr":
                return BoolV(S.or_(a.t, b.t))
            if name == "BitXor" or name == "Ne":
                return BoolV(S.not_(S.eq(a.t, b.t)))
            if name == "Eq":
                return BoolV(S.eq(a.t, b.t))
            raise Unsupported("bool binop " + name)
        if not (isinstance(a, IntV) and isinstance(b, IntV)):
            raise Unsupported("binop %s on non-integers" % name)
        ty = a.ty
        x, y = a.t, b.t
        cmp = {"Lt": S.lt, "Le": S.le, "Gt": S.gt, "Ge": S.ge, "Eq": S.eq, "Ne": S.ne}
        if name in cmp:
            return BoolV(cmp[name](x, y))
        base = name.replace("WithOverflow", "").replace("Unchecked", "")
        if base in ("Add", "Sub", "Mul"):
            if base == "Add":
                r = S.add(x, y)
            elif base == "Sub":
                r = S.sub(x, y)
            else:
                r = S.prod(x, y)
            if name.endswith("WithOverflow"):
                return Agg("tuple", [IntV(self.wrap(r, ty), ty), BoolV(self.out_of_range(r, ty))])
            return IntV(self.wrap(r, ty), ty)
        if base in ("Shl", "Shr"):
            # MIR masks the shift amount to the bit width (the overflow assert precedes it)
            amt = y
            if amt.lo < 0 or amt.hi >= ty.bits:
                amt = S.mod(amt, ty.bits)

            def one(k):
                if base == "Shl":
                    return self.wrap(S.mulc(2 ** k, x), ty)
                return S.div(x, 2 ** k)
            if amt.op == "int":
                return IntV(one(amt.args[0]), ty)
            if amt.hi - amt.lo > 128:
                raise Unsupported("shift by a wide symbolic amount")
            r = one(amt.hi)
            for k in range(amt.hi - 1, amt.lo - 1, -1):
                r = S.ite(S.eq(amt, S.const(k)), one(k), r)
            return IntV(r, ty)
        if base in ("BitAnd", "BitOr", "BitXor"):
            kind = {"BitAnd": "and", "BitOr": "or", "BitXor": "xor"}[base]
            if ty.signed:
                m = 2 ** ty.bits
                uty = INT_TYPES["u%d" % ty.bits] if ("u%d" % ty.bits) in INT_TYPES else None
                if uty is None:
                    raise Unsupported("bitop on isize")
                r = S.bitop(kind, S.mod(x, m), S.mod(y, m), ty.bits)
                return IntV(self.wrap(r, ty), ty)
            return IntV(S.bitop(kind, x, y, ty.bits), ty)
        if base in ("Div", "Rem") and y.op == "int" and y.args[0] > 0 and x.lo >= 0:
            return IntV(S.div(x, y.args[0]) if base == "Div" else S.mod(x, y.args[0]), ty)
        raise Unsupported("binop " + name)

    def unop(self, name, a):
        S = self.S
        if name == "Not":
            if isinstance(a, BoolV):
                return BoolV(S.not_(a.t))
            if isinstance(a, IntV):
                if a.ty.signed:
                    return IntV(S.sub(S.neg(a.t), S.const(1)), a.ty)
                return IntV(S.sub(S.const(a.ty.hi), a.t), a.ty)
        if name == "Neg" and isinstance(a, IntV):
            return IntV(self.wrap(S.neg(a.t), a.ty), a.ty)
        raise Unsupported("unop " + name)

    def eval_rvalue(self, rv, state, frame, self_ty):
        k = rv[0]
        ev = lambda o: self.eval_operand(o, state, frame, self_ty)  # noqa: E731
        if k == "use":
            return ev(rv[1])
        if k == "op":
            vals = [ev(o) for o in rv[2]]
            if rv[1] in UNOPS:
                return self.unop(rv[1], vals[0])
            return self.binop(rv[1], vals[0], vals[1])
        if k == "cast":
            if rv[3] not in ("IntToInt",):
                # bool -> int is printed as IntToInt as well; everything else (pointers, floats, transmute..)
                raise Unsupported("cast kind " + rv[3])
            return self.cast_int(ev(rv[1]), rv[2])
        if k == "ref":
            loc = self.resolve(state, frame, rv[1])
            if any(isinstance(p, tuple) and p[0] == "sym" for p in loc[2]):
                raise Unsupported("reference to a symbolically indexed element")
            return Ref(loc[0], loc[1], loc[2])
        if k == "agg":
            return Agg(rv[3] or rv[1], [ev(o) for o in rv[2]])
        if k == "repeat":
            v = ev(rv[1])
            cnt = rv[2]
            m = _LIT.match(cnt.replace("const ", "")) or re.fullmatch(r"(\d+)()", cnt)
            if m:
                n = int(m.group(1))
            else:
                c = self.named_const(cnt.replace("const ", ""), self_ty)
                if not (isinstance(c, IntV) and c.t.op == "int"):
                    raise Unsupported("array repeat count")
                n = c.t.args[0]
            if n > 4096:
                raise Unsupported("large array")
            return Agg("array", [v] * n)
        if k == "discr":
            v = self.read_loc(state, self.resolve(state, frame, rv[1]))
            if isinstance(v, Agg) and v.variant is not None:
                return self.lit(v.variant, "isize")
            raise Unsupported("discriminant of a symbolic enum")
        raise Unsupported("rvalue kind " + k)

    # -- CFG: immediate post-dominators -------------------------------------------------------------
    def term_of(self, fn, bb):
        key = ("t", bb)
        if key not in fn._parsed:
            fn._parsed[key] = parse_terminator(fn.blocks[bb][1])
        return fn._parsed[key]

    def succs(self, fn, bb):
        t = self.term_of(fn, bb)
        k = t[0]
        if k == "goto":
            return [t[1]]
        if k == "switch":
            return [a[1] for a in t[2]] + ([t[3]] if t[3] is not None else [])
        if k == "assert":
            return [t[4]]
        if k == "asm":
            return [t[2]]
        if k == "call":
            return [t[4]] if t[4] is not None else [EXIT]
        return [EXIT]          # return / unreachable

    def ipdom(self, fn):
        if fn._ipdom is not None:
            return fn._ipdom
        # restrict to blocks reachable from bb0 (skips cleanup blocks)
        reach, stack = set(), [0]
        while stack:
            b = stack.pop()
            if b in reach or b == EXIT:
                continue
            reach.add(b)
            stack.extend(self.succs(fn, b))
        nodes = sorted(reach) + [EXIT]
        full = set(nodes)
        pdom = {b: set(full) for b in nodes}
        pdom[EXIT] = {EXIT}
        changed = True
        while changed:
            changed = False
            for b in sorted(reach, reverse=True):
                ss = self.succs(fn, b)
                new = set(full)
                for s in ss:
                    new &= pdom[s]
                new |= {b}
                if new != pdom[b]:
                    pdom[b] = new
                    changed = True
        ip = {}
        for b in reach:
            cands = pdom[b] - {b}
            # the immediate post-dominator is the candidate that all other candidates post-dominate
            best = None
            for c in cands:
                if all((d in pdom[c]) for d in cands):
                    best = c
                    break
            ip[b] = best if best is not None else EXIT
        fn._ipdom = ip
        return ip

    # -- running -----------------------------------------------------------------------------------
    def stmt(self, fn, bb, idx):
        key = ("s", bb, idx)
        if key not in fn._parsed:
            s = fn.blocks[bb][0][idx]
            m = re.match(r"^(StorageLive|StorageDead|FakeRead|PlaceMention|Retag|AscribeUserType|Coverage|ConstEvalCounter|nop|Deinit)\b", s)
            if m or s.startswith("//"):
                fn._parsed[key] = None
            else:
                if " = " not in s:
                    raise Unsupported("statement: " + s)
                lhs, rhs = s[:-1].split(" = ", 1)
                fn._parsed[key] = (parse_place(lhs), parse_rvalue(rhs))
        return fn._parsed[key]

    def run_region(self, fn, frame, bb, stop, state, pc, self_ty):
        """Execute from block `bb` until `stop` is reached. Returns the state there (or DEAD)."""
        S = self.S
        while bb != stop:
            if bb == EXIT:
                raise Unsupported("control flow left the region (irreducible / early return)")
            self.steps += 1
            if self.steps > self.step_limit:
                raise Unsupported("step limit exceeded (loop without constant bound?)")
            stmts, _ = fn.blocks[bb]
            for i in range(len(stmts)):
                st = self.stmt(fn, bb, i)
                if st is None:
                    continue
                place, rv = st
                val = self.eval_rvalue(rv, state, frame, self_ty)
                self.write_loc(state, self.resolve(state, frame, place), val)
            t = self.term_of(fn, bb)
            k = t[0]
            where = "%s:bb%d" % (fn.name, bb)
            if k == "goto":
                bb = t[1]
            elif k == "return":
                bb = EXIT
            elif k == "unreachable":
                self.obls.append(Obligation("unreachable", pc, S.false, "MIR `unreachable` reached", where))
                return DEAD
            elif k == "assert":
                c = self.eval_operand(t[1], state, frame, self_ty)
                if not isinstance(c, BoolV):
                    raise Unsupported("assert on non-bool")
                cond = S.not_(c.t) if t[2] else c.t
                msg = t[3].strip('"')
                kind = "bounds" if "index out of bounds" in msg else "overflow"
                if cond is S.false and pc is not S.false:
                    self.obls.append(Obligation(kind, pc, cond, msg, where))
                    return DEAD
                if cond is not S.true:
                    self.obls.append(Obligation(kind, pc, cond, msg, where))
                    pc = S.and_(pc, cond)
                else:
                    self.trivial_asserts = getattr(self, "trivial_asserts", 0) + 1
                bb = t[4]
            elif k == "asm":
                self.do_asm(t[1], state, frame, self_ty)
                bb = t[2]
            elif k == "switch":
                d = self.eval_operand(t[1], state, frame, self_ty)
                arms, other = t[2], t[3]
                if isinstance(d, BoolV):
                    dt, isb = d.t, True
                elif isinstance(d, IntV):
                    dt, isb = d.t, False
                else:
                    raise Unsupported("switchInt on aggregate")
                conds = []      # (cond term, target)
                rest = S.true
                for (val, tgt) in arms:
                    if isb:
                        c = S.not_(dt) if val == 0 else dt
                    else:
                        c = S.eq(dt, S.const(val))
                    conds.append((c, tgt))
                    rest = S.and_(rest, S.not_(c))
                if other is not None:
                    conds.append((rest, other))
                live = [(c, tg) for (c, tg) in conds if c is not S.false]
                if len(live) == 1 or any(c is S.true for c, _ in live):
                    bb = [tg for (c, tg) in live if c is S.true or len(live) == 1][0]
                    continue
                key = (frame, bb)
                if key in self.active_sym_switch:
                    raise Unsupported("loop with a symbolic exit condition in " + fn.name)
                self.active_sym_switch.add(key)
                join = self.ipdom(fn)[bb]
                merged = DEAD
                for (c, tg) in reversed(live):
                    sub = self.run_region(fn, frame, tg, join, dict(state), S.and_(pc, c), self_ty)
                    merged = self.merge_states(c, sub, merged)
                self.active_sym_switch.discard(key)
                if merged is DEAD:
                    return DEAD
                state.clear()
                state.update(merged)
                bb = join
            elif k == "call":
                dest, callee, argops, ret = t[1], t[2], t[3], t[4]
                args = [self.eval_operand(a, state, frame, self_ty) for a in argops]
                val = self.do_call(callee, args, state, pc, self_ty, where)
                if val is DEAD or ret is None:
                    return DEAD
                self.write_loc(state, self.resolve(state, frame, dest), val)
                bb = ret
            else:
                raise Unsupported("terminator kind " + k)
        return state

    def call_fn(self, fn, args, state, pc, self_ty):
        """Inline `fn`: fresh frame, run to exit, return (value of _0, state)."""
        if len(args) != fn.nargs:
            raise Unsupported("arity mismatch calling " + fn.name)
        self.frames += 1
        frame = self.frames
        if frame > 20000:
            raise Unsupported("too many inlined calls")
        for i, a in enumerate(args):
            state[(frame, i + 1)] = a
        if fn.ret_type.strip() == "()":
            state[(frame, 0)] = UNIT
        self.inlined.add((fn.crate, fn.name))
        res = self.run_region(fn, frame, 0, EXIT, state, pc, self_ty)
        if res is DEAD:
            return DEAD, state
        v = state.get((frame, 0))
        for k in [k for k in state if k[0] == frame]:
            del state[k]
        if v is None:
            raise Unsupported("callee %s returned no value" % fn.name)
        return v, state

    # -- calls: intrinsics, then MIR bodies ----------------------------------------------------------
    _NUM = re.compile(r"^core::num::<impl (\w+)>::(\w+)$")

    def do_call(self, callee, args, state, pc, self_ty, where):
        S = self.S
        m = self._NUM.match(callee)
        if m and m.group(1) in INT_TYPES:
            ty = INT_TYPES[m.group(1)]
            name = m.group(2)
            mm = re.match(r"^(overflowing|wrapping|checked|unchecked)_(add|sub|mul|neg|shl|shr)$", name)
            if mm and mm.group(1) in ("overflowing", "wrapping") and mm.group(2) in ("add", "sub", "mul"):
                x, y = args[0].t, args[1].t
                r = {"add": S.add, "sub": S.sub, "mul": S.prod}[mm.group(2)](x, y)
                w = IntV(self.wrap(r, ty), ty)
                if mm.group(1) == "wrapping":
                    return w
                return Agg("tuple", [w, BoolV(self.out_of_range(r, ty))])
            if name == "wrapping_neg":
                return IntV(self.wrap(S.neg(args[0].t), ty), ty)
            raise Unsupported("std integer method " + callee)
        m = re.match(r"^<(\w+) as (?:core::convert::)?From<(\w+)>>::from$", callee)
        if m and m.group(1) in INT_TYPES and (m.group(2) in INT_TYPES or m.group(2) == "bool"):
            return self.cast_int(args[0], m.group(1))
        if re.match(r"^<(?:std|core)::ops::Range<\w+> as (?:core::iter::|std::iter::)?IntoIterator>::into_iter$", callee):
            return args[0]
        if re.match(r"^<(?:std|core)::ops::Range<\w+> as (?:core::iter::|std::iter::)?Iterator>::next$", callee):
            # `for i in a..b` with concrete bounds: the loop is unrolled by following the concrete branch
            r = args[0]
            if not isinstance(r, Ref):
                raise Unsupported("Range::next on a non-reference")
            loc = (r.frame, r.local, list(r.path))
            rng = self.read_loc(state, loc)
            if not (isinstance(rng, Agg) and len(rng.fields) == 2 and all(isinstance(f, IntV) for f in rng.fields)):
                raise Unsupported("Range::next on an unexpected value")
            st_, en_ = rng.fields
            c = S.lt(st_.t, en_.t)
            if c is S.true:
                self.write_loc(state, loc, Agg(rng.tag, [IntV(S.add(st_.t, S.const(1)), st_.ty), en_]))
                return Agg("Option", [st_], variant=1)
            if c is S.false:
                return Agg("Option", [], variant=0)
            raise Unsupported("loop bound is not evidently constant (Range with symbolic bounds)")
        if callee in ("core::hint::unreachable_unchecked", "unreachable_unchecked",
                      "std::hint::unreachable_unchecked"):
            self.obls.append(Obligation("assume", pc, S.false,
                                        "unreachable_unchecked() reached (plonky2_util::assume violated)", where))
            return DEAD
        fn, sty = self.prog.resolve_fn(callee, self_ty)
        if fn is None:
            # by-name models, used only if the util crate's MIR is not loaded
            base = callee.split("::")[-1]
            if base == "assume" and callee in ("assume", "plonky2_util::assume") and len(args) == 1:
                self.obls.append(Obligation("assume", pc, args[0].t, "plonky2_util::assume(cond)", where))
                self.notes.add("plonky2_util::assume modelled by name (obligation: argument is true)")
                return UNIT
            if callee in ("branch_hint", "plonky2_util::branch_hint") and not args:
                self.notes.add("plonky2_util::branch_hint modelled by name (no-op)")
                return UNIT
            raise Unsupported("unknown callee: " + callee)
        if self.call_hook:
            # the hook may record obligations (preconditions) and may return a value that replaces the
            # call (contract / summary mode); None = inline the body as usual
            rep = self.call_hook(self, fn, args, pc, where)
            if rep is not None:
                return rep
        v, _ = self.call_fn(fn, args, state, pc, sty)
        return v

    def do_asm(self, text, state, frame, self_ty):
        S = self.S
        parts = _split_top(text)
        tmpl = parts[0]
        if tmpl == '""':
            # empty template (plonky2_util::branch_hint): no instructions, no operands allowed
            if all(p.startswith("options(") for p in parts[1:]):
                return
            raise Unsupported("asm with empty template but operands")
        if tmpl == ASM_ADD_SBB:
            ops = [p for p in parts[1:] if not p.startswith("options(")]
            m0 = re.match(r"^inlateout\(reg\) (.+) => (.+)$", ops[0]) if len(ops) == 2 else None
            m1 = re.match(r"^inlateout\(reg\) (.+) => (.+)$", ops[1]) if len(ops) == 2 else None
            if not (m0 and m1):
                raise Unsupported("asm add/sbb with unexpected operands: " + text)
            x = self.eval_operand(parse_operand(m0.group(1)), state, frame, self_ty)
            y = self.eval_operand(parse_operand(m1.group(1)), state, frame, self_ty)
            u64 = INT_TYPES["u64"]
            if not (isinstance(x, IntV) and isinstance(y, IntV) and x.ty.name == "u64" and y.ty.name == "u64"):
                raise Unsupported("asm add/sbb on non-u64 operands")
            s = S.add(x.t, y.t)
            carry = S.le(S.const(2 ** 64), s)
            self.write_loc(state, self.resolve(state, frame, parse_place(m0.group(2))), IntV(self.wrap(s, u64), u64))
            self.write_loc(state, self.resolve(state, frame, parse_place(m1.group(2))),
                           IntV(S.ite(carry, S.const(0xFFFFFFFF), S.const(0)), u64))
            self.notes.add(ASM_MODEL_NOTE)
            return
        raise Unsupported("inline asm template not modelled: " + tmpl[:80])

    # -- entry -------------------------------------------------------------------------------------
    def run(self, fn, args, self_ty=None, extra_state=None):
        """Execute `fn` on argument values. Returns (return value, final state)."""
        state = dict(extra_state or {})
        v, st = self.call_fn(fn, args, state, self.S.true, self_ty)
        if v is DEAD:
            raise Unsupported("function never returns")
        return v, st


# ---- small helpers for engines -----------------------------------------------------------------

def flatten(v):
    """All integer/bool leaf terms of a value, in order."""
    if isinstance(v, IntV) or isinstance(v, BoolV):
        return [v.t]
    if isinstance(v, Agg):
        out = []
        for f in v.fields:
            out.extend(flatten(f))
        return out
    if isinstance(v, Unit):
        return []
    raise Unsupported("cannot flatten value")


def gf(v_or_term, ex=None):
    """wrap a u64 IntV as GoldilocksField(u64)"""
    return Agg("GoldilocksField", [v_or_term])
