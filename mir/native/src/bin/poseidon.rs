//! Same protocol as field.rs for the Poseidon layers of GoldilocksField (public trait API only).
use std::io::{self, BufRead, Write};
use std::panic;

use plonky2::hash::poseidon::Poseidon;
use plonky2_field::goldilocks_field::GoldilocksField as G;

fn u(s: &str) -> u64 {
    s.parse::<u64>().expect("u64 argument")
}

fn st(a: &[&str]) -> [G; 12] {
    let mut s = [G(0); 12];
    for i in 0..12 {
        s[i] = G(u(a[i]));
    }
    s
}

fn raw(s: &[G; 12]) -> Vec<u128> {
    s.iter().map(|e| e.0 as u128).collect()
}

fn call(name: &str, a: &[&str]) -> Vec<u128> {
    match name {
        "mds_layer" => raw(&<G as Poseidon>::mds_layer(&st(a))),
        "mds_row_shf" => {
            let r = a[0].parse::<usize>().unwrap();
            let mut v = [0u64; 12];
            for i in 0..12 {
                v[i] = u(a[1 + i]);
            }
            vec![<G as Poseidon>::mds_row_shf(r, &v)]
        }
        "mds_partial_layer_fast" => {
            let r = a[12].parse::<usize>().unwrap();
            raw(&<G as Poseidon>::mds_partial_layer_fast(&st(a), r))
        }
        "mds_partial_layer_init" => raw(&<G as Poseidon>::mds_partial_layer_init::<G, 1>(&st(a))),
        "constant_layer" => {
            let mut s = st(a);
            <G as Poseidon>::constant_layer(&mut s, a[12].parse::<usize>().unwrap());
            raw(&s)
        }
        "partial_first_constant_layer" => {
            let mut s = st(a);
            <G as Poseidon>::partial_first_constant_layer::<G, 1>(&mut s);
            raw(&s)
        }
        _ => panic!("unknown function {name}"),
    }
}

fn main() {
    panic::set_hook(Box::new(|_| {}));
    let stdin = io::stdin();
    let out = io::stdout();
    let mut out = out.lock();
    for line in stdin.lock().lines() {
        let line = line.unwrap();
        let toks: Vec<&str> = line.split_whitespace().collect();
        if toks.is_empty() {
            continue;
        }
        let res = panic::catch_unwind(|| call(toks[0], &toks[1..]));
        match res {
            Ok(v) => {
                let s: Vec<String> = v.iter().map(|x| x.to_string()).collect();
                writeln!(out, "{}", s.join(" ")).unwrap();
            }
            Err(_) => writeln!(out, "PANIC").unwrap(),
        }
    }
}
