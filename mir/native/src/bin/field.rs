//! stdin: one call per line `fn_name arg..` (decimal). stdout: one line per call with the raw result
//! words (GoldilocksField's inner u64, *not* canonicalised) or `PANIC`.
use std::io::{self, BufRead, Write};
use std::panic;

use plonky2_field::extension::quadratic::QuadraticExtension;
use plonky2_field::extension::quartic::QuarticExtension;
use plonky2_field::extension::quintic::QuinticExtension;
use plonky2_field::goldilocks_field::GoldilocksField as G;
use plonky2_field::ops::Square;
use plonky2_field::types::{Field, Field64, PrimeField64};

fn u(s: &str) -> u64 {
    s.parse::<u64>().expect("u64 argument")
}

fn call(name: &str, a: &[&str]) -> Vec<u64> {
    match name {
        "add" => vec![(G(u(a[0])) + G(u(a[1]))).0],
        "sub" => vec![(G(u(a[0])) - G(u(a[1]))).0],
        "neg" => vec![(-G(u(a[0]))).0],
        "mul" => vec![(G(u(a[0])) * G(u(a[1]))).0],
        "square" => vec![G(u(a[0])).square().0],
        "multiply_accumulate" => vec![G(u(a[0])).multiply_accumulate(G(u(a[1])), G(u(a[2]))).0],
        "add_canonical_u64" => vec![unsafe { G(u(a[0])).add_canonical_u64(u(a[1])) }.0],
        "sub_canonical_u64" => vec![unsafe { G(u(a[0])).sub_canonical_u64(u(a[1])) }.0],
        "to_canonical_u64" => vec![G(u(a[0])).to_canonical_u64()],
        "from_noncanonical_u96" => {
            vec![G::from_noncanonical_u96((u(a[0]), a[1].parse::<u32>().expect("u32"))).0]
        }
        "from_noncanonical_u128" => {
            vec![G::from_noncanonical_u128(a[0].parse::<u128>().expect("u128")).0]
        }
        "from_noncanonical_i64" => {
            vec![G::from_noncanonical_i64(a[0].parse::<i64>().expect("i64")).0]
        }
        "ext2_mul" => {
            let x = QuadraticExtension::<G>([G(u(a[0])), G(u(a[1]))]);
            let y = QuadraticExtension::<G>([G(u(a[2])), G(u(a[3]))]);
            (x * y).0.iter().map(|e| e.0).collect()
        }
        "ext4_mul" => {
            let x = QuarticExtension::<G>([G(u(a[0])), G(u(a[1])), G(u(a[2])), G(u(a[3]))]);
            let y = QuarticExtension::<G>([G(u(a[4])), G(u(a[5])), G(u(a[6])), G(u(a[7]))]);
            (x * y).0.iter().map(|e| e.0).collect()
        }
        "ext5_mul" => {
            let x = QuinticExtension::<G>([G(u(a[0])), G(u(a[1])), G(u(a[2])), G(u(a[3])), G(u(a[4]))]);
            let y = QuinticExtension::<G>([G(u(a[5])), G(u(a[6])), G(u(a[7])), G(u(a[8])), G(u(a[9]))]);
            (x * y).0.iter().map(|e| e.0).collect()
        }
        _ => panic!("unknown function {name}"),
    }
}

fn main() {
    panic::set_hook(Box::new(|_| {}));
    let stdin = io::stdin();
    let out = io::stdout();
    let mut out = out.lock();
    for line in stdin.lock().lines() {
        let line = line.unwrap();
        let toks: Vec<&str> = line.split_whitespace().collect();
        if toks.is_empty() {
            continue;
        }
        let res = panic::catch_unwind(|| call(toks[0], &toks[1..]));
        match res {
            Ok(v) => {
                let s: Vec<String> = v.iter().map(|x| x.to_string()).collect();
                writeln!(out, "{}", s.join(" ")).unwrap();
            }
            Err(_) => writeln!(out, "PANIC").unwrap(),
        }
    }
}
